//! C12 — notifications arrive in order, without loss or duplication, while open.
//!
//! E2 (deviation-bounded schedule exploration) of two real `Litep2p` nodes with the real notification protocol on
//! SimNet. Node A's user owns the `NotificationHandle` and executes a *program* of bursts (synchronous sends executed
//! back-to-back, asynchronous sends awaited one after the other without ever blocking the command loop), `Close`,
//! `Open`; node B's user reads `handle.next()` under a token gate (eager / stalled until the gate is opened / a few
//! events at a time). Programs (mode x burst length x notification size x receiver pattern x channel size x carrier
//! window x close/reopen) are enumerated in an outer loop; for each the scheduler explores every interleaving of all
//! tasks within the deviation bound. The oracle is evaluated on the two logs the user tasks collected.

use crate::{
    env::simnet::{NodeCmd, World},
    mc::{
        e1::Viol,
        e2::{self, Scenario, E2},
    },
    report::Ctx,
};
use futures::{future::BoxFuture, StreamExt};
use litep2p::{
    config::ConfigBuilder,
    protocol::notification::{ConfigBuilder as NotifConfigBuilder, NotificationEvent, NotificationHandle, ValidationResult},
    types::protocol::ProtocolName,
    PeerId,
};
use parking_lot::Mutex;
use serde::{Deserialize, Serialize};
use serde_json::{json, Value};
use std::{
    collections::{BTreeMap, BTreeSet, HashSet, VecDeque},
    sync::Arc,
    task::Poll,
    time::Duration,
};

/// configured maximum notification size of the ordinary programs
pub const MAX: usize = 32;
/// configured maximum of the "big" programs that push the outbound substream over its 64 KiB backpressure boundary
pub const MAX_BIG: usize = 65536;

#[derive(Clone, Copy, Debug, Serialize, Deserialize, PartialEq, Eq, PartialOrd, Ord)]
pub enum Mode {
    Sync,
    Async,
}

impl Mode {
    fn name(self) -> &'static str {
        match self {
            Mode::Sync => "sync",
            Mode::Async => "async",
        }
    }
}

#[derive(Clone, Debug, Serialize, Deserialize, PartialEq, Eq)]
pub enum Op {
    /// sends handed to the sending user in ONE command: synchronous sends are executed back-to-back, asynchronous
    /// sends are awaited one after the other (`(sequence number, size)`)
    Burst { mode: Mode, items: Vec<(u16, usize)> },
    Close,
    Open,
    /// give the receiving user `n` read tokens (`None` = unlimited from now on)
    Gate(Option<u32>),
    /// flow-control window of the A->B carrier (`None` = unlimited, `Some(0)` = carrier accepts nothing)
    Window(Option<usize>),
    CutLink,
}

#[derive(Clone, Debug, Serialize, Deserialize)]
pub struct NotifScenario {
    /// size of the synchronous and of the asynchronous channel
    pub chan: usize,
    /// configured maximum notification size (of the receiver, and of the sender unless `max_sender` is set)
    pub max: usize,
    /// the sender's configured maximum where it differs from the receiver's (then only the receiver can refuse)
    #[serde(default)]
    pub max_sender: Option<usize>,
    /// receiver reads eagerly from the start (else only with gate tokens)
    pub eager: bool,
    /// carrier window applied to the A->B pipe once the stream is open
    pub window: Option<usize>,
    pub program: Vec<Op>,
    /// the receiver's protocol has another main name and knows the sender's name only as a fallback name: the stream is
    /// negotiated under a fallback name on the receiving side
    #[serde(default)]
    pub receiver_fallback: bool,
}

#[derive(Debug, Clone)]
enum ALog {
    Opened,
    Closed,
    OpenFailure(String),
    OpenCall(bool),
    CloseCall,
    Sync { seq: u16, size: usize, period: Option<u32>, res: Result<(), String> },
    AsyncCall { seq: u16, size: usize, period: Option<u32> },
    AsyncDone { seq: u16, res: Result<(), String> },
    /// some other task of node A was polled (inserted by the monitor): the only moment the channels can be drained
    Drain,
    Unexpected(String),
}

enum ACmd {
    Burst { mode: Mode, items: Vec<(u16, usize)> },
    Close,
    Open,
}

#[derive(Debug, Clone)]
enum BLog {
    Validate,
    Opened,
    Closed,
    Recv(Vec<u8>),
    Other(String),
}

pub struct St {
    a_cmd: tokio::sync::mpsc::UnboundedSender<ACmd>,
    b_gate: tokio::sync::mpsc::UnboundedSender<Option<u32>>,
    a_log: Arc<Mutex<Vec<ALog>>>,
    b_log: Arc<Mutex<Vec<BLog>>>,
    pc: usize,
    a_node: usize,
    a_user: usize,
    others_polls: u64,
    setup_ok: bool,
    cut: bool,
    window: Option<usize>,
    b_unlimited: bool,
}

fn proto() -> ProtocolName {
    ProtocolName::from("/verif/notif/1")
}

/// the sequence number is in every byte: size 1 = [seq], size >= 2 = [seq_hi, seq_lo, seq_lo, ..]
pub fn payload(seq: u16, size: usize) -> Vec<u8> {
    match size {
        0 => Vec::new(),
        1 => {
            assert!(seq < 256, "one-byte notifications need a one-byte sequence number");
            vec![seq as u8]
        }
        _ => {
            let mut v = vec![(seq & 0xff) as u8; size];
            v[0] = (seq >> 8) as u8;
            v
        }
    }
}

fn decode(p: &[u8]) -> Option<u16> {
    match p.len() {
        0 => None,
        1 => Some(p[0] as u16),
        _ => Some(((p[0] as u16) << 8) | p[1] as u16),
    }
}

fn err_name(e: &impl std::fmt::Debug) -> String {
    let s = format!("{e:?}");
    s.split('(').next().unwrap_or("").to_string()
}

type SendFut = BoxFuture<'static, litep2p::Result<()>>;

fn spawn_sender(w: &mut World, node: usize, mut handle: NotificationHandle, peer_b: PeerId) -> (usize, tokio::sync::mpsc::UnboundedSender<ACmd>, Arc<Mutex<Vec<ALog>>>) {
    let (tx, mut rx) = tokio::sync::mpsc::unbounded_channel::<ACmd>();
    let log = Arc::new(Mutex::new(Vec::new()));
    let l = log.clone();
    let task = w.spawn_for(node, "notif-user", async move {
        // asynchronous sends: a FIFO of requested sends, the head is in flight (the API takes `&mut self`, so one
        // handle has at most one asynchronous send in progress); it is polled inside the select loop through a clone
        // of the peer's `NotificationSink`, which is exactly what `NotificationHandle::send_async_notification` does
        let mut queue: VecDeque<(u16, usize)> = VecDeque::new();
        let mut inflight: Option<(u16, SendFut)> = None;
        let mut period = 0u32;
        loop {
            while inflight.is_none() {
                let Some((seq, size)) = queue.pop_front() else { break };
                match handle.notification_sink(peer_b) {
                    Some(sink) => {
                        l.lock().push(ALog::AsyncCall { seq, size, period: Some(period) });
                        let data = payload(seq, size);
                        inflight = Some((seq, Box::pin(async move { sink.send_async_notification(data).await })));
                    }
                    None => {
                        l.lock().push(ALog::AsyncCall { seq, size, period: None });
                        // no sink: the handle's method returns at once
                        let r = handle.send_async_notification(peer_b, payload(seq, size)).await;
                        l.lock().push(ALog::AsyncDone { seq, res: r.map_err(|e| err_name(&e)) });
                    }
                }
            }
            tokio::select! {
                biased;
                r = std::future::poll_fn(|cx| match inflight.as_mut() {
                    Some((_, f)) => f.as_mut().poll(cx),
                    None => Poll::Pending,
                }) => {
                    let (seq, _) = inflight.take().expect("in flight");
                    l.lock().push(ALog::AsyncDone { seq, res: r.map_err(|e| err_name(&e)) });
                }
                cmd = rx.recv() => match cmd {
                    None => return,
                    Some(ACmd::Burst { mode: Mode::Sync, items }) => {
                        for (seq, size) in items {
                            let had_sink = handle.notification_sink(peer_b).is_some();
                            // a plain fn: it cannot wait; the log entry records that it returned and with what
                            let r = handle.send_sync_notification(peer_b, payload(seq, size));
                            l.lock().push(ALog::Sync { seq, size, period: had_sink.then_some(period), res: r.map_err(|e| err_name(&e)) });
                        }
                    }
                    Some(ACmd::Burst { mode: Mode::Async, items }) => queue.extend(items),
                    Some(ACmd::Close) => {
                        handle.close_substream(peer_b).await;
                        l.lock().push(ALog::CloseCall);
                    }
                    Some(ACmd::Open) => {
                        let r = handle.open_substream(peer_b).await;
                        l.lock().push(ALog::OpenCall(r.is_ok()));
                    }
                },
                ev = handle.next() => match ev {
                    None => return,
                    Some(NotificationEvent::NotificationStreamOpened { .. }) => {
                        period += 1;
                        l.lock().push(ALog::Opened);
                    }
                    Some(NotificationEvent::NotificationStreamClosed { .. }) => l.lock().push(ALog::Closed),
                    Some(NotificationEvent::NotificationStreamOpenFailure { error, .. }) => l.lock().push(ALog::OpenFailure(format!("{error:?}"))),
                    Some(NotificationEvent::ValidateSubstream { peer, .. }) => handle.send_validation_result(peer, ValidationResult::Accept),
                    Some(e) => l.lock().push(ALog::Unexpected(format!("{e:?}"))),
                },
            }
        }
    });
    (task, tx, log)
}

fn spawn_receiver(w: &mut World, node: usize, mut handle: NotificationHandle, eager: bool) -> (tokio::sync::mpsc::UnboundedSender<Option<u32>>, Arc<Mutex<Vec<BLog>>>) {
    let (tx, mut rx) = tokio::sync::mpsc::unbounded_channel::<Option<u32>>();
    let log = Arc::new(Mutex::new(Vec::new()));
    let l = log.clone();
    w.spawn_for(node, "notif-reader", async move {
        let mut tokens = 0u64;
        let mut unlimited = eager;
        loop {
            while !unlimited && tokens == 0 {
                match rx.recv().await {
                    None => return,
                    Some(None) => unlimited = true,
                    Some(Some(n)) => tokens += n as u64,
                }
            }
            let Some(ev) = handle.next().await else { return };
            if !unlimited {
                tokens -= 1;
            }
            match ev {
                NotificationEvent::ValidateSubstream { peer, .. } => {
                    l.lock().push(BLog::Validate);
                    handle.send_validation_result(peer, ValidationResult::Accept);
                }
                NotificationEvent::NotificationStreamOpened { .. } => l.lock().push(BLog::Opened),
                NotificationEvent::NotificationStreamClosed { .. } => l.lock().push(BLog::Closed),
                NotificationEvent::NotificationReceived { notification, .. } => l.lock().push(BLog::Recv(notification.to_vec())),
                e => l.lock().push(BLog::Other(format!("{e:?}"))),
            }
        }
    });
    (tx, log)
}

fn others_polls(w: &World, node: usize, user: usize) -> u64 {
    w.nodes[node].tasks.iter().filter(|t| **t != user).map(|t| w.driver.tasks[*t].polls).sum()
}

struct SendRec {
    mode: Mode,
    size: usize,
    period: Option<u32>,
    /// position in call order
    order: usize,
    /// None = still pending
    res: Option<Result<(), String>>,
}

impl Scenario for NotifScenario {
    type State = St;

    fn name(&self) -> String {
        format!("notif[{}]", serde_json::to_string(self).unwrap())
    }

    fn config(&self) -> Value {
        serde_json::to_value(self).unwrap()
    }

    fn setup(&self, w: &mut World) -> St {
        let receiver_fallback = self.receiver_fallback;
        let mk = |max: usize, receiver: bool| {
            let builder = if receiver && receiver_fallback {
                // the receiver's main name differs; it accepts the sender's name as a fallback name
                NotifConfigBuilder::new(ProtocolName::from("/verif/notif/2")).with_fallback_names(vec![proto()])
            } else {
                NotifConfigBuilder::new(proto())
            };
            builder
                .with_max_size(max)
                .with_handshake(vec![1, 2, 3, 4])
                .with_auto_accept_inbound(true)
                .with_sync_channel_size(self.chan)
                .with_async_channel_size(self.chan)
                .build()
        };
        let (cfg_a, handle_a) = mk(self.max_sender.unwrap_or(self.max), false);
        let (cfg_b, handle_b) = mk(self.max, true);
        let a = w
            .add_node(31, ConfigBuilder::new().with_notification_protocol(cfg_a).with_keep_alive_timeout(Duration::from_secs(60)))
            .expect("node a");
        let b = w
            .add_node(32, ConfigBuilder::new().with_notification_protocol(cfg_b).with_keep_alive_timeout(Duration::from_secs(60)))
            .expect("node b");
        let peer_b = w.nodes[b].peer;
        let addr_b = w.nodes[b].address.clone();
        let (a_user, a_cmd, a_log) = spawn_sender(w, a, handle_a, peer_b);
        let (b_gate, b_log) = spawn_receiver(w, b, handle_b, self.eager);
        w.nodes[a].cmd.send(NodeCmd::DialAddress(addr_b)).unwrap();
        w.run_to_quiescence(50_000);
        let _ = a_cmd.send(ACmd::Open);
        if !self.eager {
            // the receiver's user has to read ValidateSubstream and NotificationStreamOpened
            let _ = b_gate.send(Some(2));
        }
        w.run_to_quiescence(50_000);
        let setup_ok = a_log.lock().iter().any(|e| matches!(e, ALog::Opened)) && b_log.lock().iter().any(|e| matches!(e, BLog::Opened));
        if let Some(win) = self.window {
            for l in w.links.iter().filter(|l| l.a == a) {
                l.a_to_b.set_policy(|p| p.window = win);
            }
        }
        let others = others_polls(w, a, a_user);
        St { a_cmd, b_gate, a_log, b_log, pc: 0, a_node: a, a_user, others_polls: others, setup_ok, cut: false, window: self.window, b_unlimited: self.eager }
    }

    fn lazy_count(&self, st: &St, _w: &World) -> usize {
        usize::from(st.pc < self.program.len())
    }

    fn lazy_apply(&self, st: &mut St, w: &mut World, _k: usize) {
        match &self.program[st.pc] {
            Op::Burst { mode, items } => {
                let _ = st.a_cmd.send(ACmd::Burst { mode: *mode, items: items.clone() });
            }
            Op::Close => {
                let _ = st.a_cmd.send(ACmd::Close);
            }
            Op::Open => {
                let _ = st.a_cmd.send(ACmd::Open);
            }
            Op::Gate(n) => {
                if n.is_none() {
                    st.b_unlimited = true;
                }
                let _ = st.b_gate.send(*n);
            }
            Op::Window(win) => {
                st.window = *win;
                let a = st.a_node;
                for l in w.links.iter().filter(|l| l.a == a) {
                    l.a_to_b.set_policy(|p| p.window = win.unwrap_or(usize::MAX));
                }
            }
            Op::CutLink => {
                st.cut = true;
                for k in 0..w.links.len() {
                    w.cut_link(k);
                }
            }
        }
        st.pc += 1;
    }

    fn monitor(&self, st: &mut St, w: &World) -> Vec<Viol> {
        let now = others_polls(w, st.a_node, st.a_user);
        if now != st.others_polls {
            st.others_polls = now;
            let mut l = st.a_log.lock();
            if !matches!(l.last(), Some(ALog::Drain)) {
                l.push(ALog::Drain);
            }
        }
        Vec::new()
    }

    fn finish(&self, st: &mut St, _w: &mut World, quiescent: bool) -> Vec<Viol> {
        let mut v = Vec::new();
        if !st.setup_ok {
            v.push(Viol::new("machinery/setup-not-open", "the notification stream did not open during setup"));
            return v;
        }
        if !quiescent {
            v.push(Viol::new("notif/no-quiescence", "step cap hit: the system never became quiescent"));
            return v;
        }
        let a = st.a_log.lock().clone();
        let b = st.b_log.lock().clone();
        let ctx = || format!("sender log {a:?}; receiver log {}", show_b(&b));

        // ---- what the sender did ----------------------------------------------------------------
        let mut sends: BTreeMap<u16, SendRec> = BTreeMap::new();
        let mut a_open = false;
        let mut a_period = 0u32;
        let mut closed_periods: BTreeSet<u32> = BTreeSet::new();
        for e in &a {
            match e {
                ALog::Opened => {
                    a_open = true;
                    a_period += 1;
                }
                ALog::Closed => {
                    a_open = false;
                    closed_periods.insert(a_period);
                }
                ALog::Sync { seq, size, period, res } => {
                    let order = sends.len();
                    sends.insert(*seq, SendRec { mode: Mode::Sync, size: *size, period: *period, order, res: Some(res.clone()) });
                }
                ALog::AsyncCall { seq, size, period } => {
                    let order = sends.len();
                    sends.insert(*seq, SendRec { mode: Mode::Async, size: *size, period: *period, order, res: None });
                }
                ALog::AsyncDone { seq, res } =>
                    if let Some(r) = sends.get_mut(seq) {
                        r.res = Some(res.clone());
                    },
                ALog::Unexpected(s) => v.push(Viol::new("notif/unexpected-event-at-sender", format!("the sending user saw {s}"))),
                _ => {}
            }
        }

        // ---- the two send calls themselves --------------------------------------------------------
        {
            // run = number of sends accepted since the channel could last have been drained (another task of node A
            // polled) or replaced (stream opened); accepted_in_period = accepted sends of the current open period
            let (mut sync_run, mut async_run) = (0usize, 0usize);
            let mut sync_in_period = 0usize;
            for e in &a {
                match e {
                    ALog::Drain => {
                        sync_run = 0;
                        async_run = 0;
                    }
                    ALog::Opened => {
                        sync_run = 0;
                        async_run = 0;
                        sync_in_period = 0;
                    }
                    ALog::Sync { seq, period: Some(_), res, .. } => match res {
                        Ok(()) => {
                            sync_run += 1;
                            sync_in_period += 1;
                            if sync_run > self.chan {
                                v.push(Viol::new(
                                    "sync/blocked-or-wrong-error",
                                    format!("synchronous send {seq} returned Ok although {} sends had already been accepted into the channel of {} slot(s) and nothing could have drained it in between (expected Err(ChannelClogged)); {}", sync_run - 1, self.chan, ctx()),
                                ));
                            }
                        }
                        Err(e) if e == "ChannelClogged" =>
                            if sync_in_period < self.chan {
                                v.push(Viol::new(
                                    "sync/blocked-or-wrong-error",
                                    format!("synchronous send {seq} reported ChannelClogged although only {sync_in_period} notification(s) were ever accepted into this stream's channel of {} slot(s); {}", self.chan, ctx()),
                                ));
                            },
                        Err(e) if e == "NoConnection" => {}
                        Err(e) => v.push(Viol::new(
                            "sync/blocked-or-wrong-error",
                            format!("synchronous send {seq} returned the undocumented error {e}; {}", ctx()),
                        )),
                    },
                    ALog::AsyncDone { seq, res: Ok(()) } => {
                        async_run += 1;
                        if async_run > self.chan {
                            v.push(Viol::new(
                                "async/completed-without-capacity",
                                format!("asynchronous send {seq} completed although {} sends had already completed into the channel of {} slot(s) and nothing could have drained it in between; {}", async_run - 1, self.chan, ctx()),
                            ));
                        }
                    }
                    _ => {}
                }
            }
            // every commanded synchronous send returned
            let commanded: usize = self.program[..st.pc]
                .iter()
                .map(|o| if let Op::Burst { mode: Mode::Sync, items } = o { items.len() } else { 0 })
                .sum();
            let returned = sends.values().filter(|r| r.mode == Mode::Sync).count();
            if returned != commanded {
                v.push(Viol::new("sync/blocked-or-wrong-error", format!("{commanded} synchronous sends were commanded, {returned} returned; {}", ctx())));
            }
            // an asynchronous send waits for capacity, not forever: with the carrier flowing nothing may be pending
            if st.window != Some(0) {
                let asked: usize = self.program[..st.pc]
                    .iter()
                    .map(|o| if let Op::Burst { mode: Mode::Async, items } = o { items.len() } else { 0 })
                    .sum();
                let done = sends.values().filter(|r| r.mode == Mode::Async && r.res.is_some()).count();
                if done != asked {
                    v.push(Viol::new(
                        "async/never-completed",
                        format!("{asked} asynchronous sends were requested, only {done} completed although the system is quiescent and the carrier is flowing; {}", ctx()),
                    ));
                }
            }
        }

        // ---- what the receiver's user saw -------------------------------------------------------
        // (receiver period, sequence number) of every identified delivery, and the empty ones per receiver period
        let mut delivered: Vec<(u32, u16)> = Vec::new();
        let mut empties = 0usize;
        let mut b_open = false;
        let mut b_period = 0u32;
        for e in &b {
            match e {
                BLog::Opened => {
                    b_open = true;
                    b_period += 1;
                }
                BLog::Closed => b_open = false,
                BLog::Recv(p) => {
                    if p.len() > self.max {
                        v.push(Viol::new(
                            "size/oversized-delivered",
                            format!("a notification of {} bytes was delivered, the configured maximum is {}; {}", p.len(), self.max, ctx()),
                        ));
                    }
                    match decode(p) {
                        None => empties += 1,
                        Some(seq) => match sends.get(&seq) {
                            Some(r) if payload(seq, r.size) == *p => delivered.push((b_period, seq)),
                            _ => v.push(Viol::new(
                                "order/unknown-payload",
                                format!("the receiver got {} bytes {:?}.. which no send produced; {}", p.len(), &p[..p.len().min(4)], ctx()),
                            )),
                        },
                    }
                }
                BLog::Other(s) => v.push(Viol::new("notif/unexpected-event-at-receiver", format!("the receiving user saw {s}"))),
                BLog::Validate => {}
            }
        }
        let last_period_open = a_open && b_open && !st.cut && st.b_unlimited;

        // ---- stream periods must not be mixed ---------------------------------------------------
        {
            let mut map: BTreeMap<u32, BTreeSet<u32>> = BTreeMap::new();
            for (bp, seq) in &delivered {
                if let Some(p) = sends[seq].period {
                    map.entry(*bp).or_default().insert(p);
                }
            }
            let mut prev_max = 0u32;
            for (bp, aps) in &map {
                let lo = *aps.iter().next().unwrap();
                let hi = *aps.iter().next_back().unwrap();
                if aps.len() > 1 || lo <= prev_max {
                    v.push(Viol::new(
                        "period/mixed-open-periods",
                        format!("between its {bp}. NotificationStreamOpened and the following close the receiver's user was handed notifications sent during the sender's open period(s) {aps:?} (earlier receiver periods already covered sender periods up to {prev_max}): notifications of one stream were delivered as part of another stream; {}", ctx()),
                    ));
                }
                prev_max = prev_max.max(hi);
            }
        }

        // ---- per mode: at most once, in order, no gap, no loss while open -----------------------
        for mode in [Mode::Sync, Mode::Async] {
            let m = mode.name();
            let dl: Vec<u16> = delivered.iter().map(|(_, s)| *s).filter(|s| sends[s].mode == mode).collect();
            // duplicates
            let mut seen = BTreeSet::new();
            let mut first: Vec<u16> = Vec::new();
            for s in &dl {
                if !seen.insert(*s) {
                    v.push(Viol::new(format!("order/duplicate/{m}"), format!("notification {s} was delivered more than once; {}", ctx())));
                } else {
                    first.push(*s);
                }
            }
            // order
            for pair in first.windows(2) {
                if sends[&pair[0]].order > sends[&pair[1]].order {
                    v.push(Viol::new(
                        format!("order/reordered/{m}"),
                        format!("notification {} was delivered before notification {} although it was sent after it; {}", pair[0], pair[1], ctx()),
                    ));
                }
            }
            // delivered although not accepted
            for s in &first {
                let r = &sends[s];
                match &r.res {
                    Some(Ok(())) if r.period.is_some() => {}
                    Some(Err(e)) if mode == Mode::Sync => v.push(Viol::new(
                        "sync/blocked-or-wrong-error",
                        format!("synchronous send {s} reported {e} but the notification was delivered; {}", ctx()),
                    )),
                    other => v.push(Viol::new(
                        format!("order/delivered-not-accepted/{m}"),
                        format!("notification {s} was delivered although its send did not report success on an open stream ({other:?}, period {:?}); {}", r.period, ctx()),
                    )),
                }
            }
            // per sender open period
            let periods: BTreeSet<u32> = sends.values().filter(|r| r.mode == mode).filter_map(|r| r.period).collect();
            for p in periods {
                let mut accepted: Vec<(usize, u16)> = sends
                    .iter()
                    .filter(|(_, r)| r.mode == mode && r.period == Some(p) && r.res == Some(Ok(())) && r.size <= self.max && r.size > 0)
                    .map(|(s, r)| (r.order, *s))
                    .collect();
                accepted.sort();
                let accepted: Vec<u16> = accepted.into_iter().map(|(_, s)| s).collect();
                let got: Vec<u16> = first.iter().copied().filter(|s| sends[s].period == Some(p)).collect();
                // gap: something accepted earlier is missing in front of a delivered one
                let mut gap = None;
                let index: BTreeMap<u16, usize> = accepted.iter().enumerate().map(|(i, s)| (*s, i)).collect();
                let mut seen_idx = vec![false; accepted.len()];
                let mut next_missing = 0usize;
                for s in &got {
                    if let Some(pos) = index.get(s) {
                        while next_missing < accepted.len() && seen_idx[next_missing] {
                            next_missing += 1;
                        }
                        if next_missing < *pos {
                            gap = Some((accepted[next_missing], *s));
                            break;
                        }
                        seen_idx[*pos] = true;
                    }
                }
                if let Some((missing, later)) = gap {
                    v.push(Viol::new(
                        format!("order/gap-while-open/{m}"),
                        format!("notification {later} was delivered but notification {missing}, accepted before it on the same stream, had not been delivered (accepted {accepted:?}, delivered {got:?}); {}", ctx()),
                    ));
                } else if got.len() < accepted.len() {
                    let still_open = p == a_period && last_period_open && !closed_periods.contains(&p);
                    if still_open {
                        v.push(Viol::new(
                            format!("loss/accepted-not-delivered/{m}/open-at-quiescence"),
                            format!("the stream is still open on both sides, the system is quiescent and the receiver reads eagerly, yet the accepted notifications {:?} were never delivered (accepted {accepted:?}, delivered {got:?}); {}", &accepted[got.len()..], ctx()),
                        ));
                    }
                }
            }
            // empty notifications carry no sequence number: programs that send them use one mode and one stream
            let zero_sent = sends.values().filter(|r| r.mode == mode && r.size == 0).count();
            if zero_sent > 0 {
                let zero_ok = sends.values().filter(|r| r.mode == mode && r.size == 0 && r.period.is_some() && r.res == Some(Ok(()))).count();
                if empties > zero_ok {
                    v.push(Viol::new(
                        format!("order/duplicate/{m}"),
                        format!("{empties} empty notifications were delivered, only {zero_ok} were accepted; {}", ctx()),
                    ));
                }
                if empties < zero_ok && last_period_open && a_period == 1 && closed_periods.is_empty() {
                    v.push(Viol::new(
                        format!("loss/accepted-not-delivered/{m}/open-at-quiescence"),
                        format!("{zero_ok} empty notifications were accepted on a stream that is still open, only {empties} were delivered; {}", ctx()),
                    ));
                }
            }
        }
        if empties > 0 && !sends.values().any(|r| r.size == 0) {
            v.push(Viol::new("order/unknown-payload", format!("{empties} empty notification(s) delivered, none was sent; {}", ctx())));
        }
        v
    }

    fn trace_class(&self, st: &St, _w: &World) -> String {
        let a: Vec<String> = st
            .a_log
            .lock()
            .iter()
            .filter_map(|e| match e {
                ALog::Opened => Some("O".into()),
                ALog::Closed => Some("C".into()),
                ALog::OpenFailure(s) => Some(format!("OF:{s}")),
                ALog::OpenCall(ok) => Some(format!("o{}", if *ok { "" } else { "!" })),
                ALog::CloseCall => Some("c".into()),
                ALog::Sync { seq, period, res, .. } => Some(format!("s{seq}{}{}", if period.is_some() { "" } else { "~" }, match res { Ok(()) => "".to_string(), Err(e) => format!("!{}", &e[..e.len().min(3)]) })),
                ALog::AsyncCall { seq, period, .. } => Some(format!("a{seq}{}", if period.is_some() { "" } else { "~" })),
                ALog::AsyncDone { seq, res } => Some(format!("d{seq}{}", if res.is_ok() { "" } else { "!" })),
                ALog::Drain => None,
                ALog::Unexpected(_) => Some("?".into()),
            })
            .collect();
        format!("{}|{}", a.join(","), show_b(&st.b_log.lock()))
    }
}

fn show_b(b: &[BLog]) -> String {
    let v: Vec<String> = b
        .iter()
        .map(|e| match e {
            BLog::Validate => "V".into(),
            BLog::Opened => "O".into(),
            BLog::Closed => "C".into(),
            BLog::Recv(p) => match decode(p) {
                Some(s) => format!("r{s}/{}", p.len()),
                None => "r-/0".into(),
            },
            BLog::Other(s) => format!("?{s}"),
        })
        .collect();
    v.join(",")
}

// ------------------------------------------------------------------------------------------------
// programs
// ------------------------------------------------------------------------------------------------

#[derive(Clone, Copy, PartialEq, Eq, Debug)]
pub enum Reader {
    Eager,
    /// does not read until the program is finished
    Stalled,
    /// one event per token, a token after every third send
    Every3rd,
}

#[derive(Clone, Copy, PartialEq, Eq, Debug)]
pub enum Sizes {
    One(usize),
    Mixed,
}

/// `len` sends of one mode, either in one command (back-to-back) or one command per send
fn burst_program(mode: Mode, chan: usize, len: usize, sizes: Sizes, reader: Reader, window: Option<usize>, back_to_back: bool) -> NotifScenario {
    // the oversized one is second to last so that something follows it
    let mixed = [1usize, MAX, MAX - 1, 2, MAX + 1, 3, MAX, 5];
    let items: Vec<(u16, usize)> = (0..len)
        .map(|i| {
            let size = match sizes {
                Sizes::One(s) => s,
                Sizes::Mixed => {
                    if len >= 2 && i == len - 2 {
                        MAX + 1
                    } else {
                        mixed[i % mixed.len()].min(MAX)
                    }
                }
            };
            (i as u16 + 1, size)
        })
        .collect();
    let mut program = Vec::new();
    if back_to_back {
        program.push(Op::Burst { mode, items: items.clone() });
        if reader == Reader::Every3rd {
            for _ in 0..len.div_ceil(3) {
                program.push(Op::Gate(Some(1)));
            }
        }
    } else {
        for (i, it) in items.iter().enumerate() {
            program.push(Op::Burst { mode, items: vec![*it] });
            if reader == Reader::Every3rd && i % 3 == 2 {
                program.push(Op::Gate(Some(1)));
            }
        }
    }
    if reader != Reader::Eager {
        program.push(Op::Gate(None));
    }
    NotifScenario { max_sender: None, chan, max: MAX, eager: reader == Reader::Eager, window, program, receiver_fallback: false }
}

/// burst, Close, Open, burst — eager reader, or a stalled one that is given exactly the two tokens it needs to see
/// the close and to accept the new stream while the first period's notifications are still queued
fn reopen_program(mode: Mode, chan: usize, len: usize, stalled: bool, back_to_back: bool) -> NotifScenario {
    let mk = |from: u16| -> Vec<Op> {
        let items: Vec<(u16, usize)> = (0..len as u16).map(|i| (from + i, 3)).collect();
        if back_to_back {
            vec![Op::Burst { mode, items }]
        } else {
            items.into_iter().map(|it| Op::Burst { mode, items: vec![it] }).collect()
        }
    };
    let mut program = mk(1);
    program.push(Op::Close);
    program.push(Op::Open);
    if stalled {
        program.push(Op::Gate(Some(2)));
    }
    program.extend(mk(101));
    if stalled {
        program.push(Op::Gate(None));
    }
    NotifScenario { max_sender: None, chan, max: MAX, eager: !stalled, window: None, program, receiver_fallback: false }
}

/// the carrier accepts nothing while `n` notifications of 60000 bytes are sent: the outbound substream crosses its
/// 64 KiB backpressure boundary and `Connection` has to park a notification it already took out of the channel
fn big_program(mode: Mode, n: usize) -> NotifScenario {
    let items: Vec<(u16, usize)> = (0..n as u16).map(|i| (i + 1, 60_000)).collect();
    let program = match mode {
        Mode::Sync => vec![Op::Window(Some(0)), Op::Burst { mode, items }, Op::Window(None)],
        Mode::Async => vec![Op::Window(Some(0)), Op::Burst { mode, items }, Op::Window(None)],
    };
    NotifScenario { max_sender: None, chan: if mode == Mode::Sync { n + 1 } else { 2 }, max: MAX_BIG, eager: true, window: None, program, receiver_fallback: false }
}

/// more notifications than the receiver-side channel holds (4096) while the receiver's user does not read
fn deep_stall_program() -> NotifScenario {
    let mut program = Vec::new();
    let mut seq = 1u16;
    // the channel's capacity (4096 in the pinned tree, taken from the library) plus two bursts
    let bursts = litep2p::verif::DEFAULT_CHANNEL_SIZE / 64 + 2;
    for _ in 0..bursts {
        let items: Vec<(u16, usize)> = (0..64).map(|_| {
            let s = seq;
            seq += 1;
            (s, 2)
        }).collect();
        program.push(Op::Burst { mode: Mode::Sync, items });
    }
    program.push(Op::Gate(None));
    NotifScenario { max_sender: None, chan: 64, max: MAX, eager: false, window: None, program, receiver_fallback: false }
}

fn mixed_mode_program(chan: usize, reader: Reader) -> NotifScenario {
    let mut program = vec![
        Op::Burst { mode: Mode::Sync, items: vec![(1, 3)] },
        Op::Burst { mode: Mode::Async, items: vec![(2, 4), (3, 5)] },
        Op::Burst { mode: Mode::Sync, items: vec![(4, 6)] },
        Op::Burst { mode: Mode::Async, items: vec![(5, MAX)] },
    ];
    if reader != Reader::Eager {
        program.push(Op::Gate(None));
    }
    NotifScenario { max_sender: None, chan, max: MAX, eager: reader == Reader::Eager, window: None, program, receiver_fallback: false }
}

fn cut_program(mode: Mode) -> NotifScenario {
    NotifScenario {
        max_sender: None,
        chan: 2,
        max: MAX,
        eager: true,
        window: Some(10),
        program: vec![Op::Burst { mode, items: vec![(1, MAX), (2, MAX)] }, Op::CutLink, Op::Burst { mode, items: vec![(3, 1)] }],
        receiver_fallback: false,
    }
}

fn receiver_on_fallback_name(mut s: NotifScenario) -> NotifScenario {
    s.receiver_fallback = true;
    s
}

fn larger_sender_max(mut s: NotifScenario) -> NotifScenario {
    s.max_sender = Some(2 * MAX);
    s
}

/// (scenario, deviation bound)
pub fn scenarios(thorough: bool) -> Vec<(NotifScenario, usize)> {
    let mut v: Vec<(NotifScenario, usize)> = Vec::new();
    let modes = [Mode::Sync, Mode::Async];
    if !thorough {
        for mode in modes {
            for chan in [1usize, 2] {
                // burst lengths 1, 3, cap+1, cap+3 back-to-back
                let lens: BTreeSet<usize> = [1, 3, chan + 1, chan + 3].into_iter().collect();
                for len in lens {
                    v.push((burst_program(mode, chan, len, Sizes::One(1), Reader::Eager, None, true), 2));
                }
            }
            // sizes, paced so that nothing clogs
            for size in [0usize, MAX - 1, MAX, MAX + 1] {
                v.push((burst_program(mode, 2, 3, Sizes::One(size), Reader::Eager, None, false), 2));
            }
            v.push((burst_program(mode, 2, 5, Sizes::Mixed, Reader::Eager, None, false), 2));
            // the sender is configured with a larger maximum than the receiver: only the receiver can refuse
            v.push((larger_sender_max(burst_program(mode, 2, 3, Sizes::One(MAX + 1), Reader::Eager, None, false)), 2));
            v.push((larger_sender_max(burst_program(mode, 2, 5, Sizes::Mixed, Reader::Eager, None, true)), 2));
            // ... and the stream runs under a fallback name on the receiving side (the size limit must not depend on it)
            v.push((receiver_on_fallback_name(larger_sender_max(burst_program(mode, 2, 3, Sizes::One(MAX + 1), Reader::Eager, None, false))), 1));
            v.push((receiver_on_fallback_name(burst_program(mode, 2, 3, Sizes::One(MAX), Reader::Eager, None, false)), 1));
            // reader patterns
            v.push((burst_program(mode, 2, 4, Sizes::One(2), Reader::Stalled, None, false), 2));
            v.push((burst_program(mode, 1, 4, Sizes::One(2), Reader::Every3rd, None, false), 2));
            // small carrier window
            v.push((burst_program(mode, 2, 3, Sizes::One(MAX), Reader::Eager, Some(10), false), 2));
            v.push((burst_program(mode, 1, 3, Sizes::One(MAX - 1), Reader::Stalled, Some(10), mode == Mode::Async), 2));
            // close / reopen
            v.push((reopen_program(mode, 2, 2, false, true), 2));
            v.push((reopen_program(mode, 2, 2, true, true), 2));
            // carrier cut
            v.push((cut_program(mode), 2));
            // substream backpressure
            v.push((big_program(mode, 7), 2));
        }
        v.push((mixed_mode_program(2, Reader::Eager), 2));
        v.push((mixed_mode_program(1, Reader::Stalled), 2));
        // receiver-side channel (4096 entries) full: default schedule only in the quick tier
        v.push((deep_stall_program(), 0));
        return v;
    }
    for mode in modes {
        for chan in [1usize, 2] {
            let lens: BTreeSet<usize> = [1, 3, chan + 1, chan + 3].into_iter().collect();
            for len in lens {
                for sizes in [Sizes::One(0), Sizes::One(1), Sizes::One(MAX - 1), Sizes::One(MAX), Sizes::One(MAX + 1), Sizes::Mixed] {
                    for reader in [Reader::Eager, Reader::Stalled, Reader::Every3rd] {
                        for window in [None, Some(10usize)] {
                            for b2b in [true, false] {
                                if len == 1 && !b2b {
                                    continue;
                                }
                                let small = len <= 2 || (len == 3 && window.is_none());
                                v.push((burst_program(mode, chan, len, sizes, reader, window, b2b), if small { 3 } else { 2 }));
                                if sizes == Sizes::One(MAX + 1) || sizes == Sizes::Mixed {
                                    v.push((larger_sender_max(burst_program(mode, chan, len, sizes, reader, window, b2b)), 2));
                                }
                            }
                        }
                    }
                }
            }
            for len in [1usize, 2, chan + 1] {
                for stalled in [false, true] {
                    for b2b in [true, false] {
                        if len == 1 && !b2b {
                            continue;
                        }
                        v.push((reopen_program(mode, chan, len, stalled, b2b), if len == 1 && chan == 1 { 3 } else { 2 }));
                    }
                }
            }
        }
        v.push((cut_program(mode), 3));
        v.push((big_program(mode, 7), 2));
    }
    for chan in [1usize, 2] {
        for reader in [Reader::Eager, Reader::Stalled] {
            v.push((mixed_mode_program(chan, reader), 3));
        }
    }
    v.push((deep_stall_program(), 1));
    v
}

pub fn run(ctx: &mut Ctx) {
    let thorough = ctx.tier == crate::report::Tier::Thorough;
    let mut scns = scenarios(thorough);
    // debugging aid: restrict to programs whose name contains the given text (evidence then says so)
    if let Ok(f) = std::env::var("VERIF_C12_FILTER") {
        scns.retain(|(s, _)| s.name().contains(&f));
        ctx.assume(format!("RESTRICTED RUN: only programs containing {f:?}"));
    }
    if let Ok(b) = std::env::var("VERIF_C12_BOUND") {
        let b: usize = b.parse().expect("bound");
        scns.iter_mut().for_each(|(_, x)| *x = b);
        ctx.assume(format!("RESTRICTED RUN: deviation bound forced to {b}"));
    }
    // the grid produces a few programs twice (e.g. "mixed sizes" of length 1 = size 1): keep the first (higher or equal bound)
    let mut distinct = HashSet::new();
    scns.retain(|(s, _)| distinct.insert(s.name()));
    ctx.cov("programs", scns.len() as u64);
    let mut bounds: BTreeMap<usize, u64> = BTreeMap::new();
    let mut min_completed = usize::MAX;
    for (s, bound) in &scns {
        distinct.insert(s.name());
        let e2 = E2 { bound: *bound, max_executions: 3_000_000, ..Default::default() };
        let t0 = std::time::Instant::now();
        let out = e2.explore(s);
        if std::env::var("VERIF_C12_TRACE").is_ok() {
            eprintln!("{:.2}s bound {} execs {} steps {} {}", t0.elapsed().as_secs_f64(), bound, out.stats.executions, out.stats.max_steps, &s.name()[..s.name().len().min(160)]);
        }
        *bounds.entry(out.stats.bound_completed).or_default() += 1;
        min_completed = min_completed.min(out.stats.bound_completed);
        e2::absorb(ctx, &s.name(), out);
    }
    ctx.cov("distinct_programs", distinct.len() as u64);
    ctx.cov("deviation_bound", if min_completed == usize::MAX { 0 } else { min_completed as u64 });
    ctx.cov("programs_per_completed_deviation_bound", json!(bounds));
    ctx.cov(
        "rule",
        "for every program (sending mode x burst length {1,3,cap+1,cap+3} back-to-back or paced x notification size {0,1,MAX-1,MAX,MAX+1,mixed} x \
         reader {eager, stalled until the end, a few events at a time} x channel size {1,2} x carrier window {unlimited, 10 B}; close/reopen; carrier \
         cut; mixed modes; 7 x 60000 B against a blocked carrier (substream backpressure); 4224 notifications against a stalled reader (receiver \
         channel full)): E2 runs the default (FIFO) schedule of all tasks of two real Litep2p nodes on SimNet and every schedule with up to the \
         per-program deviation bound deviations (another enabled task first, or the next user command / environment action issued early), each \
         to quiescence; oracle on the sender's and the receiver's user logs: per mode and per open period delivered = duplicate-free, in send \
         order, a gap-free prefix of the accepted sends, equal to them when the stream is still open at quiescence; sends accepted between two \
         possible drains <= channel size; nothing larger than the maximum delivered; no notification of a closed stream delivered inside a later one",
    );
    ctx.assume("SimNet's connection task mirrors transport/tcp/connection.rs over real yamux + multistream-select + ProtocolSet; Noise/TCP below yamux is replaced by an in-memory pipe (DESIGN §2.3)");
    ctx.assume("interleaving granularity is one poll of one task; tokio::select! branch order inside a poll (Connection picks between the sync and the async channel at random) is fixed by the runtime seed");
    ctx.assume("the notification negotiation/validation timers run on the virtual clock (cfg hook) but C12 takes no clock steps: they never fire here; irrelevant once the stream is open, and every open in the programs is accepted by the receiver's user");
    ctx.assume("asynchronous sends are issued one at a time per handle (the API takes &mut self) through a clone of the peer's NotificationSink, which is what NotificationHandle::send_async_notification does internally");
    ctx.assume("the receiver-side channels (4096 entries, not configurable) only fill up in the deep-stall program (quick tier: default schedule only; thorough: bound 1); the substream's 64 KiB backpressure boundary is only crossed in the 60000-byte programs");
    ctx.assume("an accepted oversized notification is excluded from the no-gap/no-loss expectation (it must never be delivered; the implementation closes the stream)");
}

pub fn replay(case: &Value) -> Result<String, String> {
    let s: NotifScenario = serde_json::from_value(case["config"].clone()).map_err(|e| e.to_string())?;
    e2::replay(&s, case)
}
