//! Connection-manager model shared by C05 (dial outcomes / no wedged peer), C06 (connection caps) and C10(c)
//! (dial order / re-scoring). E1 explicit-state exploration of a real `Litep2p` (real `TransportManager`,
//! `PeerState`, `ConnectionLimits`, `AddressStore`, `TransportManagerHandle`, real `ProtocolSet` /
//! `TransportService` of a monitor protocol) over the scripted transport. One stimulus per action, then the manager
//! loop and all node tasks are polled to quiescence.

use crate::{
    env::{
        driver,
        node::{Monitor, MonitorCmd, MonitorHandle, Node, Seen},
        transport::{AcceptDecision, Call},
    },
    mc::e1::{self, Explorer, Model, Step, Viol},
    report::Ctx,
    util,
};
use litep2p::{
    config::ConfigBuilder,
    error::{DialError, NegotiationError},
    transport::{ConnectionLimitsConfig, Endpoint},
    types::ConnectionId,
    verif::{ManagerSnapshot, TransportEvent},
    PeerId,
};
use multiaddr::{Multiaddr, Protocol};
use serde::{Deserialize, Serialize};
use serde_json::{json, Value};
use std::{
    collections::{BTreeMap, BTreeSet},
    future::Future,
    task::{Context, Poll},
};

pub const N_PEERS: u8 = 2;

fn peer(i: u8) -> PeerId {
    util::peer(500 + i as u64)
}

/// address `a` of peer `p`: a=0 private, a=1 public (gets the public-address bonus)
fn addr(p: u8, a: u8) -> Multiaddr {
    let ip = if a == 0 { format!("10.0.{p}.1") } else { format!("8.8.{p}.{}", a + 1) };
    // a == 2: the peer's WebSocket address (only offered when the node has two transports)
    let tail = if a == 2 { "/ws" } else { "" };
    format!("/ip4/{ip}/tcp/30333{tail}").parse::<Multiaddr>().unwrap().with(Protocol::P2p(peer(p).into()))
}

fn peer_of_addr(a: &Multiaddr) -> Option<u8> {
    match a.iter().last() {
        Some(Protocol::P2p(h)) => {
            let id = PeerId::from_multihash(h).ok()?;
            (0..=N_PEERS).find(|i| peer(*i) == id)
        }
        _ => None,
    }
}

fn poll_now<F: Future>(f: F) -> Option<F::Output> {
    let waker = futures::task::noop_waker();
    let mut cx = Context::from_waker(&waker);
    let mut f = std::pin::pin!(f);
    match f.as_mut().poll(&mut cx) {
        Poll::Ready(v) => Some(v),
        Poll::Pending => None,
    }
}

#[derive(Clone, Debug, Serialize, Deserialize)]
pub enum Act {
    Dial { p: u8 },
    DialAddr { p: u8, a: u8 },
    AddKnown { p: u8, a: u8 },
    /// a protocol asks for a dial through its `TransportService`
    ProtoDial { p: u8 },
    Opened { id: usize, a: usize, errors: bool, #[serde(default)] t: u8 },
    /// the socket opens but `Transport::negotiate` then fails (the statement quantifies over negotiate failures;
    /// the TCP transport itself can only fail there if the opened socket has vanished)
    OpenedNegotiateFails { id: usize, a: usize, #[serde(default)] t: u8 },
    OpenFail { id: usize, #[serde(default)] t: u8 },
    Established { id: usize },
    DialFail { id: usize },
    InboundPending { p: u8 },
    InboundEstablished { id: usize },
    InboundVanish { id: usize },
    /// the inbound connection is negotiated and reported, but the transport's `accept()` call itself returns an error
    /// (the connection was dropped between the report and the call): the manager has to roll everything back
    InboundEstablishedAcceptFails { id: usize },
    AcceptDone { id: usize },
    Close { id: usize },
    /// the monitor protocol returns from `run()` (its `TransportService` is dropped)
    MonitorExit,
}

#[derive(Clone, Debug, PartialEq, Eq)]
enum Outcome {
    Established,
    Failure,
    /// the manager cancelled the attempt because it accepted another connection with the peer
    Superseded,
}

#[derive(Clone, Debug)]
struct Attempt {
    peer: u8,
    addrs: Vec<Multiaddr>,
    outcome: Option<Outcome>,
    last_call: &'static str,
    /// set when the attempt was cancelled: the connection that superseded it must get reported
    superseded_check: bool,
}

pub struct MgrModel {
    pub max_in: Option<usize>,
    pub max_out: Option<usize>,
    pub depth: usize,
    /// which property's oracles are reported ("c05", "c06", "c10"); others are still evaluated but dropped
    pub filter: &'static str,
    /// signatures listed in known_findings.json for this property: reported, but exploration continues past them
    pub known: BTreeSet<String>,
    /// name of the non-initial state the exploration starts from (see `root_script`); "" = a fresh node
    pub root: &'static str,
    /// two transports (TCP + a second scripted one registered as WebSocket); each peer then has a third, `/ws`, address
    pub ws: bool,
}

/// One step of a root script: an exact action, or the first / last enabled action of a kind (connection ids are
/// assigned by the manager, the script does not know them).
enum RootStep {
    Exact(Act),
    First(&'static str),
    Last(&'static str),
}

fn act_kind(a: &Act) -> &'static str {
    match a {
        Act::Dial { .. } => "Dial",
        Act::DialAddr { .. } => "DialAddr",
        Act::AddKnown { .. } => "AddKnown",
        Act::ProtoDial { .. } => "ProtoDial",
        Act::Opened { .. } => "Opened",
        Act::OpenedNegotiateFails { .. } => "OpenedNegotiateFails",
        Act::OpenFail { .. } => "OpenFail",
        Act::Established { .. } => "Established",
        Act::DialFail { .. } => "DialFail",
        Act::InboundPending { .. } => "InboundPending",
        Act::InboundEstablished { .. } => "InboundEstablished",
        Act::InboundVanish { .. } => "InboundVanish",
        Act::InboundEstablishedAcceptFails { .. } => "InboundEstablishedAcceptFails",
        Act::AcceptDone { .. } => "AcceptDone",
        Act::Close { .. } => "Close",
        Act::MonitorExit => "MonitorExit",
    }
}

/// Non-initial states the exploration also starts from ("most defects do not show from the initial state").
fn root_script(root: &str) -> Vec<RootStep> {
    use RootStep::*;
    match root {
        // peer 1 is connected through its own (inbound) connection while our dial to it is still in flight, and an
        // outbound connection to peer 2 is established (with an outbound limit of 1 that fills it)
        "p1-inbound-and-dial-in-flight+p2-outbound" => vec![
            Exact(Act::DialAddr { p: 1, a: 0 }),
            Exact(Act::InboundPending { p: 1 }),
            First("InboundEstablished"),
            First("AcceptDone"),
            Exact(Act::DialAddr { p: 2, a: 0 }),
            Last("Established"),
            First("AcceptDone"),
        ],
        // a dial to peer 1 BY PEER ID is in flight (state `Opening`) while peer 1 and peer 2 both have an inbound
        // connection being negotiated: the two inbound connections race for the limit, and whichever loses or wins
        // does so while the peer's own dial is still open
        "p1-opening+two-inbound-pending" => vec![
            Exact(Act::AddKnown { p: 1, a: 0 }),
            Exact(Act::Dial { p: 1 }),
            Exact(Act::InboundPending { p: 1 }),
            Exact(Act::InboundPending { p: 2 }),
        ],
        // an outbound connection to peer 2 is established (part of an outbound limit is used up)
        "p2-outbound-established" => vec![
            Exact(Act::DialAddr { p: 2, a: 0 }),
            Last("Established"),
            First("AcceptDone"),
        ],
        // peer 1 holds the two connections a peer may have
        "p1-two-connections" => vec![
            Exact(Act::InboundPending { p: 1 }),
            First("InboundEstablished"),
            First("AcceptDone"),
            Exact(Act::InboundPending { p: 1 }),
            First("InboundEstablished"),
            First("AcceptDone"),
        ],
        _ => vec![],
    }
}

pub struct Sys {
    node: Node,
    mon: MonitorHandle,
    mon_seen: usize,
    mon_exited: bool,
    attempts: BTreeMap<usize, Attempt>,
    /// outstanding `open` calls per (transport, connection id): a dial by peer id uses ONE id on every transport
    open_out: BTreeMap<(u8, usize), Vec<Multiaddr>>,
    /// transport a single-transport stage of the attempt runs on (dial / opened / negotiating)
    tr_of: BTreeMap<usize, u8>,
    opened_wait: BTreeMap<usize, Multiaddr>,
    nego_out: BTreeMap<usize, Multiaddr>,
    dial_out: BTreeMap<usize, Multiaddr>,
    inbound_pending: BTreeMap<usize, u8>,
    inbound_nego: BTreeMap<usize, u8>,
    est_wait: BTreeMap<usize, (u8, Endpoint)>,
    /// connections whose `accept()` call was scripted to fail
    accept_call_fails: BTreeSet<usize>,
    accept_wait: BTreeMap<usize, (u8, Endpoint)>,
    /// ground truth: connections whose accept future completed Ok and that were not closed (id → (peer, inbound))
    kept: BTreeMap<usize, (u8, bool)>,
    /// connections the manager accepted (accept() called) and not yet closed/rolled back
    accepted: BTreeMap<usize, (u8, bool)>,
    /// DialFailure events delivered to the monitor protocol, per peer
    proto_dial_failures: BTreeMap<u8, usize>,
    mgr_failures: BTreeMap<u8, usize>,
    snapshot: ManagerSnapshot,
    violations: Vec<Viol>,
    /// the last stimulus made the manager pick a strict subset of a peer's addresses and the cut fell between
    /// equally scored addresses: which ones were picked is decided by HashMap iteration order inside litep2p, so
    /// the successor is not reproducible and is not expanded
    tie_cut: bool,
    // declared last: dropped last
    rt: std::sync::Arc<tokio::runtime::Runtime>,
}

impl MgrModel {
    fn builder(&self) -> (ConfigBuilder, MonitorHandle) {
        let (mon, handle) = Monitor::new("/verif/monitor/1");
        let b = ConfigBuilder::new()
            .with_keypair(util::keypair(500))
            .with_user_protocol(mon)
            .with_connection_limits(
                ConnectionLimitsConfig::default()
                    .max_incoming_connections(self.max_in)
                    .max_outgoing_connections(self.max_out),
            );
        (b, handle)
    }

    fn scr(sys: &Sys, t: u8) -> &crate::env::transport::ScriptHandle {
        match (t, &sys.node.script_ws) {
            (1, Some(ws)) => ws,
            _ => &sys.node.script,
        }
    }

    fn n_addrs(&self) -> u8 {
        if self.ws { 3 } else { 2 }
    }

    fn v(&self, sys: &mut Sys, sig: &str, what: String) {
        sys.violations.push(Viol::new(sig, what));
    }

    fn score_of(snap: &ManagerSnapshot, p: u8, a: &Multiaddr) -> Option<i32> {
        snap.peers
            .iter()
            .find(|ps| ps.peer == peer(p))
            .and_then(|ps| ps.address_book.iter().find(|(x, _)| x == a).map(|(_, s)| *s))
    }

    /// process transport calls + manager events + monitor log produced by the last stimulus
    fn absorb(&self, sys: &mut Sys, pre: &ManagerSnapshot) {
        let ok = sys.node.settle();
        if !ok {
            self.v(sys, "c05/livelock", "manager/tasks did not reach quiescence within the step cap".into());
        }
        let mut calls: Vec<(u64, u8, Call)> = sys.node.script.take_calls_seq().into_iter().map(|(n, c)| (n, 0u8, c)).collect();
        if let Some(ws) = &sys.node.script_ws {
            calls.extend(ws.take_calls_seq().into_iter().map(|(n, c)| (n, 1u8, c)));
        }
        // the order in which the manager made them, across both transports
        calls.sort_by_key(|(n, _, _)| *n);
        for (_, t, c) in calls {
            match c {
                Call::Open { id, addresses } => {
                    // each transport is handed the addresses it can dial, and only those
                    for a in &addresses {
                        let is_ws = a.iter().any(|p| matches!(p, Protocol::Ws(_) | Protocol::Wss(_)));
                        if is_ws != (t == 1) {
                            self.v(sys, "c10/address-handed-to-wrong-transport", format!("open({id}) on transport {t} with {a}"));
                        }
                    }
                    // C10(c): non-increasing score order, bounded by free outbound capacity
                    let p = addresses.first().and_then(peer_of_addr).unwrap_or(255);
                    let scores: Vec<Option<i32>> = addresses.iter().map(|a| Self::score_of(pre, p, a)).collect();
                    if scores.iter().any(|s| s.is_none()) {
                        self.v(sys, "c10/open-with-unknown-address", format!("open({id}) with addresses {addresses:?} not all in the peer's book"));
                    }
                    let sc: Vec<i32> = scores.iter().flatten().copied().collect();
                    if sc.windows(2).any(|w| w[0] < w[1]) {
                        self.v(sys, "c10/dial-order-not-by-score", format!("open({id}) address scores {sc:?} are not non-increasing"));
                    }
                    if let Some(max_out) = self.max_out {
                        let used = sys.accepted.values().filter(|(_, inbound)| !*inbound).count();
                        if addresses.len() > max_out.saturating_sub(used) {
                            self.v(sys, "c10/more-addresses-than-free-capacity", format!("open({id}) with {} addresses, free outbound capacity {}", addresses.len(), max_out.saturating_sub(used)));
                        }
                    }
                    let book: Vec<(Multiaddr, i32)> = pre.peers.iter().find(|ps| ps.peer == peer(p)).map(|ps| ps.address_book.clone()).unwrap_or_default();
                    let best_left = book.iter().filter(|(a, _)| !addresses.contains(a)).map(|(_, s)| *s).max();
                    if let (Some(worst_taken), Some(best_left)) = (sc.iter().min(), best_left) {
                        if *worst_taken == best_left {
                            sys.tie_cut = true;
                        }
                    }
                    for a in &addresses {
                        if peer_of_addr(a) != Some(p) {
                            self.v(sys, "c10/address-of-other-peer-dialed", format!("open({id}) mixes peers: {addresses:?}"));
                        }
                    }
                    // equal scores are ordered by HashMap iteration inside litep2p: keep a canonical (sorted) copy so
                    // that action indices and the canonical state do not depend on it
                    let mut sorted = addresses.clone();
                    sorted.sort_by_key(|a| a.to_string());
                    match sys.attempts.get_mut(&id) {
                        // the same attempt on the other transport
                        Some(at) if at.outcome.is_none() && at.last_call == "open" && at.peer == p => at.addrs.extend(sorted.iter().cloned()),
                        _ => {
                            sys.attempts.insert(id, Attempt { peer: p, addrs: sorted.clone(), outcome: None, last_call: "open", superseded_check: false });
                        }
                    }
                    sys.open_out.insert((t, id), sorted);
                }
                Call::Dial { id, address } => {
                    let p = peer_of_addr(&address).unwrap_or(255);
                    sys.attempts.insert(id, Attempt { peer: p, addrs: vec![address.clone()], outcome: None, last_call: "dial", superseded_check: false });
                    sys.dial_out.insert(id, address);
                    sys.tr_of.insert(id, t);
                }
                Call::Negotiate { id } => match sys.opened_wait.remove(&id) {
                    Some(a) => {
                        let failed = Self::scr(sys, t).0.lock().fail_negotiate.contains(&id);
                        if sys.tr_of.get(&id) != Some(&t) {
                            self.v(sys, "c05/negotiate-on-wrong-transport", format!("negotiate({id}) called on transport {t}, the connection was opened by transport {:?}", sys.tr_of.get(&id)));
                        }
                        if !failed {
                            sys.nego_out.insert(id, a);
                        }
                        if let Some(at) = sys.attempts.get_mut(&id) {
                            at.last_call = if failed { "negotiate-failed" } else { "negotiate" };
                        }
                    }
                    None => self.v(sys, "c05/negotiate-unknown-connection", format!("negotiate({id}) for a connection that was not opened")),
                },
                Call::Cancel { id } => {
                    // with two transports a cancel also ends the losing transport's part of an attempt that goes on
                    // elsewhere (the other transport still opening, or its socket opened and being negotiated)
                    let goes_on = |sys: &Sys| sys.open_out.keys().any(|(_, i)| *i == id) || sys.opened_wait.contains_key(&id) || sys.nego_out.contains_key(&id);
                    if sys.open_out.remove(&(t, id)).is_some() && !goes_on(sys) {
                        if let Some(at) = sys.attempts.get_mut(&id) {
                            at.last_call = "cancel";
                            if at.outcome.is_none() {
                                at.outcome = Some(Outcome::Superseded);
                                at.superseded_check = true;
                            }
                        }
                    }
                }
                Call::AcceptPending { id } => {
                    if let Some(p) = sys.inbound_pending.remove(&id) {
                        sys.inbound_nego.insert(id, p);
                    }
                }
                Call::RejectPending { id } => {
                    if sys.inbound_pending.remove(&id).is_some() {
                        if let Some(max_in) = self.max_in {
                            let used = sys.accepted.values().filter(|(_, inbound)| *inbound).count();
                            if used < max_in {
                                self.v(sys, "c06/pending-inbound-rejected-below-limit", format!("pending inbound {id} rejected with {used} of {max_in} inbound connections"));
                            }
                        } else {
                            self.v(sys, "c06/pending-inbound-rejected-below-limit", format!("pending inbound {id} rejected without an inbound limit"));
                        }
                    }
                }
                Call::Accept { id } => match sys.est_wait.remove(&id) {
                    Some((p, _)) if sys.accept_call_fails.remove(&id) => {
                        // the call returned an error: the connection never existed for anybody; attempts that were
                        // cancelled in favour of it are left without any outcome (same class as a failed accept future)
                        if !sys.accepted.values().any(|(q, _)| *q == p) {
                            for at in sys.attempts.values_mut() {
                                if at.peer == p && at.outcome == Some(Outcome::Superseded) {
                                    at.outcome = None;
                                    at.superseded_check = false;
                                    at.last_call = "cancel-then-accept-rolled-back";
                                }
                            }
                        }
                    }
                    Some((p, ep)) => {
                        sys.tr_of.insert(id, t);
                        let inbound = ep.is_listener();
                        sys.accepted.insert(id, (p, inbound));
                        sys.accept_wait.insert(id, (p, ep));
                        if let Some(at) = sys.attempts.get_mut(&id) {
                            at.last_call = "accept";
                        }
                    }
                    None => self.v(sys, "c05/accept-unknown-connection", format!("accept({id}) for a connection that is not waiting for a decision")),
                },
                Call::Reject { id } => {
                    let waiting = sys.est_wait.remove(&id);
                    if waiting.is_none() {
                        self.v(sys, "c05/reject-unknown-connection", format!("reject({id}) for a connection that is not waiting for a decision"));
                    }
                    let cause = match &waiting {
                        Some((p, ep)) => {
                            let per_peer = sys.accepted.values().filter(|(q, _)| q == p).count();
                            let n_out = sys.accepted.values().filter(|(_, i)| !*i).count();
                            let n_in = sys.accepted.values().filter(|(_, i)| *i).count();
                            if !ep.is_listener() && self.max_out.is_some_and(|m| n_out >= m) {
                                "reject-by-outbound-limit"
                            } else if ep.is_listener() && self.max_in.is_some_and(|m| n_in >= m) {
                                "reject-by-inbound-limit"
                            } else if per_peer >= 2 {
                                "reject-third-connection"
                            } else {
                                // below every limit: the statement requires such a connection to be accepted when the
                                // peer is not connected yet
                                if per_peer == 0 {
                                    self.v(sys, "c06/connection-rejected-below-limits", format!("connection {id} from/to unconnected peer {p} rejected below all limits"));
                                }
                                "reject"
                            }
                        }
                        None => "reject",
                    };
                    if let Some(at) = sys.attempts.get_mut(&id) {
                        at.last_call = cause;
                    }
                }
            }
        }
        // a cancelled attempt must have been superseded by a connection with that peer
        let to_check: Vec<(usize, u8)> = sys.attempts.iter().filter(|(_, a)| a.superseded_check).map(|(id, a)| (*id, a.peer)).collect();
        for (id, p) in to_check {
            sys.attempts.get_mut(&id).unwrap().superseded_check = false;
            if !sys.accepted.values().any(|(q, _)| *q == p) {
                self.v(sys, "c05/cancelled-without-connection", format!("attempt {id} to peer {p} cancelled although no connection with that peer was accepted"));
            }
        }
        // caps on the set of accepted connections (ground truth = accept() calls not rolled back / closed)
        for p in 0..=N_PEERS {
            let n = sys.accepted.values().filter(|(q, _)| *q == p).count();
            if n > 2 {
                self.v(sys, "c06/more-than-two-connections-per-peer", format!("{n} connections accepted for peer {p}"));
            }
        }
        let n_in = sys.accepted.values().filter(|(_, i)| *i).count();
        let n_out = sys.accepted.values().filter(|(_, i)| !*i).count();
        if self.max_in.is_some_and(|m| n_in > m) {
            self.v(sys, "c06/inbound-limit-exceeded", format!("{n_in} inbound connections accepted, max {:?}", self.max_in));
        }
        if self.max_out.is_some_and(|m| n_out > m) {
            self.v(sys, "c06/outbound-limit-exceeded", format!("{n_out} outbound connections accepted, max {:?}", self.max_out));
        }

        // manager events
        for ev in sys.node.take_events() {
            match ev {
                TransportEvent::ConnectionEstablished { peer: pid, endpoint } => {
                    let id = endpoint.connection_id().verif_raw();
                    if !sys.kept.contains_key(&id) {
                        self.v(sys, "c05/established-event-for-unaccepted-connection", format!("ConnectionEstablished for {id} whose accept future has not completed"));
                    }
                    if let Some(at) = sys.attempts.get_mut(&id) {
                        match at.outcome {
                            None => at.outcome = Some(Outcome::Established),
                            Some(ref o) => {
                                let o = o.clone();
                                self.v(sys, "c05/two-outcomes", format!("attempt {id}: ConnectionEstablished after outcome {o:?}"));
                            }
                        }
                    }
                    let _ = pid;
                }
                TransportEvent::DialFailure { connection_id, address, error: _ } => {
                    let id = connection_id.verif_raw();
                    let p = peer_of_addr(&address).unwrap_or(255);
                    *sys.mgr_failures.entry(p).or_default() += 1;
                    let mut msgs: Vec<(&str, String)> = Vec::new();
                    match sys.attempts.get_mut(&id) {
                        None => msgs.push(("c05/failure-for-unknown-attempt", format!("DialFailure for connection {id} that was never dialed"))),
                        Some(at) => {
                            if !at.addrs.contains(&address) {
                                msgs.push(("c05/failure-names-wrong-address", format!("DialFailure({id}) names {address}, dialed {:?}", at.addrs)));
                            }
                            match at.outcome {
                                None => at.outcome = Some(Outcome::Failure),
                                Some(ref o) => msgs.push(("c05/two-outcomes", format!("attempt {id}: DialFailure after outcome {o:?}"))),
                            }
                        }
                    }
                    for (sig, m) in msgs {
                        self.v(sys, sig, m);
                    }
                }
                TransportEvent::OpenFailure { connection_id, errors } => {
                    let id = connection_id.verif_raw();
                    let mut msgs: Vec<(&str, String)> = Vec::new();
                    match sys.attempts.get_mut(&id) {
                        None => msgs.push(("c05/failure-for-unknown-attempt", format!("OpenFailure for connection {id} that was never dialed"))),
                        Some(at) => {
                            *sys.mgr_failures.entry(at.peer).or_default() += 1;
                            let bad = errors.iter().any(|(a, _)| !at.addrs.contains(a));
                            if bad || errors.is_empty() {
                                msgs.push(("c05/failure-names-wrong-address", format!("OpenFailure({id}) names {:?}, dialed {:?}", errors.iter().map(|(a, _)| a).collect::<Vec<_>>(), at.addrs)));
                            }
                            match at.outcome {
                                None => at.outcome = Some(Outcome::Failure),
                                Some(ref o) => msgs.push(("c05/two-outcomes", format!("attempt {id}: OpenFailure after outcome {o:?}"))),
                            }
                        }
                    }
                    for (sig, m) in msgs {
                        self.v(sys, sig, m);
                    }
                }
                TransportEvent::ConnectionClosed { .. } => {}
                other => self.v(sys, "c05/unexpected-manager-event", format!("{other:?}")),
            }
        }

        // monitor log
        let log: Vec<Seen> = {
            let l = sys.mon.log.lock();
            l[sys.mon_seen..].to_vec()
        };
        sys.mon_seen += log.len();
        for s in log {
            match s {
                Seen::DialFailure { peer: pid, .. } => {
                    let p = (0..=N_PEERS).find(|i| peer(*i) == pid).unwrap_or(255);
                    *sys.proto_dial_failures.entry(p).or_default() += 1;
                }
                Seen::Exited => sys.mon_exited = true,
                _ => {}
            }
        }
        for p in 0..=N_PEERS {
            let a = sys.proto_dial_failures.get(&p).copied().unwrap_or(0);
            let b = sys.mgr_failures.get(&p).copied().unwrap_or(0);
            if a > b {
                self.v(sys, "c05/duplicate-failure-to-protocol", format!("protocol saw {a} DialFailure events for peer {p}, manager reported {b} failed attempts"));
            }
        }

        // silence: every unsettled attempt must still be somewhere in flight
        let open_ids: Vec<usize> = sys.open_out.keys().map(|(_, id)| *id).collect();
        let in_flight: BTreeSet<usize> = open_ids
            .iter()
            .chain(sys.opened_wait.keys())
            .chain(sys.nego_out.keys())
            .chain(sys.dial_out.keys())
            .chain(sys.est_wait.keys())
            .chain(sys.accept_wait.keys())
            .copied()
            .collect();
        let silent: Vec<(usize, u8, &'static str)> = sys
            .attempts
            .iter()
            .filter(|(id, a)| a.outcome.is_none() && !in_flight.contains(id))
            .map(|(id, a)| (*id, a.peer, a.last_call))
            .collect();
        for (id, p, last) in silent {
            self.v(
                sys,
                &format!("c05/no-outcome/after-{last}"),
                format!("dial attempt {id} to peer {p} has no network activity left (last transport call: {last}) and got neither a connection nor a failure report"),
            );
            // report once
            sys.attempts.get_mut(&id).unwrap().outcome = Some(Outcome::Failure);
        }

        // the manager's own accounting must agree with the ground truth (capacity released exactly on close)
        let snap = sys.node.litep2p.verif_snapshot();
        let counted_in: BTreeSet<usize> = snap.counted_incoming.iter().map(|c| c.verif_raw()).collect();
        let counted_out: BTreeSet<usize> = snap.counted_outgoing.iter().map(|c| c.verif_raw()).collect();
        if self.max_in.is_some() {
            let truth: BTreeSet<usize> = sys.accepted.iter().filter(|(_, (_, i))| *i).map(|(id, _)| *id).collect();
            if counted_in != truth {
                self.v(sys, "c06/inbound-count-drift", format!("manager counts inbound {counted_in:?}, accepted-and-open inbound connections are {truth:?}"));
            }
        }
        if self.max_out.is_some() {
            let truth: BTreeSet<usize> = sys.accepted.iter().filter(|(_, (_, i))| !*i).map(|(id, _)| *id).collect();
            if counted_out != truth {
                self.v(sys, "c06/outbound-count-drift", format!("manager counts outbound {counted_out:?}, accepted-and-open outbound connections are {truth:?}"));
            }
        }
        // address book bound
        for ps in &snap.peers {
            if ps.address_book.len() > 64 {
                self.v(sys, "c10/book-over-capacity", format!("{} addresses stored for a peer", ps.address_book.len()));
            }
        }
        sys.snapshot = snap;
    }

    fn book(snap: &ManagerSnapshot) -> BTreeMap<Multiaddr, i32> {
        snap.peers.iter().flat_map(|p| p.address_book.iter().cloned()).collect()
    }

    /// only `allowed` addresses may change score / appear between two snapshots
    fn check_book_delta(&self, sys: &mut Sys, pre: &ManagerSnapshot, allowed: &[(Multiaddr, Option<i32>)], what: &str) {
        let a = Self::book(pre);
        let b = Self::book(&sys.snapshot);
        for (addr, score) in &b {
            let before = a.get(addr);
            if before == Some(score) {
                continue;
            }
            match allowed.iter().find(|(x, _)| x == addr) {
                Some((_, Some(expect))) if expect == score => {}
                Some((_, None)) => {}
                Some((_, Some(expect))) => {
                    let (s, e) = (*score, *expect);
                    self.v(sys, "c10/wrong-rescore", format!("{what}: address {addr} now has score {s}, expected {e} (before: {before:?})"));
                }
                None => {
                    let s = *score;
                    self.v(sys, "c10/unrelated-address-rescored", format!("{what}: address {addr} changed score {before:?} -> {s} although it was not used"));
                }
            }
        }
        for addr in a.keys() {
            if !b.contains_key(addr) {
                self.v(sys, "c10/address-forgotten", format!("{what}: address {addr} disappeared from the book"));
            }
        }
        // "dial successes re-score exactly the address used": the address of an established outbound connection must
        // carry the success score afterwards, whatever it carried before and whatever happens to the connection next
        // (accepted, or rolled back because of a limit)
        // ... and failures: an address in the book whose dial has just been reported failed by the transport carries the
        // failure score afterwards (at once: what happens to the rest of the attempt later must not matter)
        for (addr, expect) in allowed {
            if *expect == Some(CONNECTION_FAILURE) && a.contains_key(addr) && b.get(addr).is_some_and(|s| *s != CONNECTION_FAILURE) {
                let now = b.get(addr).copied();
                self.v(sys, "c10/failure-not-rescored", format!("{what}: the dial of {addr} failed but the address has score {now:?} afterwards (before: {:?})", a.get(addr)));
            }
        }
        for (addr, expect) in allowed {
            if *expect == Some(CONNECTION_ESTABLISHED) && b.get(addr) != Some(&CONNECTION_ESTABLISHED) {
                let now = b.get(addr).copied();
                self.v(sys, "c10/success-not-rescored", format!("{what}: the connection over {addr} was established but the address has score {now:?} afterwards (before: {:?})", a.get(addr)));
            }
        }
    }
}

// the library's own constants (re-exported through the cfg seam), so that a retuning of the scores is not an alarm
const CONNECTION_ESTABLISHED: i32 = litep2p::verif::scores::CONNECTION_ESTABLISHED;
const CONNECTION_FAILURE: i32 = litep2p::verif::scores::CONNECTION_FAILURE;

impl Model for MgrModel {
    type Sys = Sys;
    type Action = Act;

    fn name(&self) -> String {
        "manager".into()
    }

    fn config(&self) -> Value {
        json!({"max_in": self.max_in, "max_out": self.max_out, "filter": self.filter, "root": self.root, "ws": self.ws})
    }

    fn init(&self) -> Sys {
        let rt = std::sync::Arc::new(driver::runtime(7));
        let _g = rt.enter();
        let (b, mon) = self.builder();
        let mut node = Node::with_transports(b, vec![], self.ws).expect("node");
        node.settle();
        let snapshot = node.litep2p.verif_snapshot();
        let mut sys = Sys {
            node,
            mon,
            mon_seen: 0,
            mon_exited: false,
            attempts: BTreeMap::new(),
            open_out: BTreeMap::new(),
            tr_of: BTreeMap::new(),
            opened_wait: BTreeMap::new(),
            nego_out: BTreeMap::new(),
            dial_out: BTreeMap::new(),
            inbound_pending: BTreeMap::new(),
            inbound_nego: BTreeMap::new(),
            est_wait: BTreeMap::new(),
            accept_call_fails: BTreeSet::new(),
            accept_wait: BTreeMap::new(),
            kept: BTreeMap::new(),
            accepted: BTreeMap::new(),
            proto_dial_failures: BTreeMap::new(),
            mgr_failures: BTreeMap::new(),
            snapshot,
            violations: Vec::new(),
            tie_cut: false,
            rt: rt.clone(),
        };
        for step in root_script(self.root) {
            let en = self.enabled(&sys);
            let pick = match &step {
                RootStep::Exact(a) => en.iter().find(|e| format!("{e:?}") == format!("{a:?}")).cloned(),
                RootStep::First(k) => en.iter().find(|e| act_kind(e) == *k).cloned(),
                RootStep::Last(k) => en.iter().rev().find(|e| act_kind(e) == *k).cloned(),
            };
            // a step that is not enabled (e.g. refused by the configured limits) is skipped: the root is then a
            // different, still legitimate, reachable state
            if let Some(a) = pick {
                let _ = self.apply(&mut sys, &a);
            }
        }
        sys.violations.clear();
        sys
    }

    fn enabled(&self, sys: &Sys) -> Vec<Act> {
        let mut v = Vec::new();
        // transport answers first (they shrink the amount of outstanding work), then new stimuli
        for id in sys.accept_wait.keys() {
            v.push(Act::AcceptDone { id: *id });
        }
        for ((t, id), addrs) in &sys.open_out {
            for a in 0..addrs.len() {
                v.push(Act::Opened { id: *id, a, errors: false, t: *t });
                if addrs.len() > 1 {
                    v.push(Act::Opened { id: *id, a, errors: true, t: *t });
                }
            }
            v.push(Act::OpenFail { id: *id, t: *t });
            v.push(Act::OpenedNegotiateFails { id: *id, a: 0, t: *t });
        }
        for id in sys.nego_out.keys() {
            v.push(Act::Established { id: *id });
        }
        for id in sys.dial_out.keys() {
            v.push(Act::Established { id: *id });
            v.push(Act::DialFail { id: *id });
        }
        for id in sys.inbound_nego.keys() {
            v.push(Act::InboundEstablished { id: *id });
            v.push(Act::InboundVanish { id: *id });
            // offered in C06's model only: C06's capacity clause covers a connection that fails at any point; the shipped
            // transports cannot fail this call (their pending_open entry is only removed by accept/reject), and C05's
            // quantifier does not list it (DESIGN Appendix B, round 7)
            if self.filter == "c06" {
                v.push(Act::InboundEstablishedAcceptFails { id: *id });
            }
        }
        for id in sys.kept.keys() {
            v.push(Act::Close { id: *id });
        }
        let total_attempts = sys.attempts.len();
        let inbound_total = sys.inbound_pending.len() + sys.inbound_nego.len();
        for p in 1..=N_PEERS {
            if total_attempts < 4 {
                v.push(Act::Dial { p });
                for a in 0..self.n_addrs() {
                    v.push(Act::DialAddr { p, a });
                }
                if !sys.mon_exited {
                    v.push(Act::ProtoDial { p });
                }
            }
            for a in 0..self.n_addrs() {
                if Self::score_of(&sys.snapshot, p, &addr(p, a)).is_none() {
                    v.push(Act::AddKnown { p, a });
                }
            }
            if inbound_total < 2 && sys.kept.len() + sys.accept_wait.len() + sys.est_wait.len() < 4 {
                v.push(Act::InboundPending { p });
            }
        }
        if !sys.mon_exited {
            v.push(Act::MonitorExit);
        }
        v
    }

    fn apply(&self, sys: &mut Sys, a: &Act) -> Result<Step, Viol> {
        let rt = sys.rt.clone();
        let _g = rt.enter();
        let pre = sys.snapshot.clone();
        let mut allowed: Vec<(Multiaddr, Option<i32>)> = Vec::new();
        let what = format!("{a:?}");
        match a {
            Act::Dial { p } => {
                let had_conn = sys.accepted.values().any(|(q, _)| q == p);
                let r = poll_now(sys.node.litep2p.dial(&peer(*p)));
                let calls_before = 0;
                let _ = calls_before;
                match r {
                    None => self.v(sys, "c05/dial-pending", "Litep2p::dial did not complete synchronously".into()),
                    Some(Ok(())) => {}
                    Some(Err(litep2p::Error::ConnectionLimit(_))) => {
                        let used = sys.accepted.values().filter(|(_, i)| !*i).count();
                        if self.max_out.map_or(true, |m| used < m) {
                            self.v(sys, "c06/dial-refused-below-outbound-limit", format!("dial({p}) failed with ConnectionLimit with {used} outbound connections, max {:?}", self.max_out));
                        }
                    }
                    Some(Err(litep2p::Error::AlreadyConnected)) => {
                        if !had_conn {
                            self.v(sys, "c05/wedged/already-connected-without-connection", format!("dial({p}) answered AlreadyConnected but no connection with that peer is accepted"));
                        }
                    }
                    Some(Err(_)) => {}
                }
            }
            Act::DialAddr { p, a } => {
                let r = poll_now(sys.node.litep2p.dial_address(addr(*p, *a)));
                allowed.push((addr(*p, *a), None));
                match r {
                    None => self.v(sys, "c05/dial-pending", "Litep2p::dial_address did not complete synchronously".into()),
                    Some(Err(litep2p::Error::ConnectionLimit(_))) => {
                        let used = sys.accepted.values().filter(|(_, i)| !*i).count();
                        if self.max_out.map_or(true, |m| used < m) {
                            self.v(sys, "c06/dial-refused-below-outbound-limit", format!("dial_address failed with ConnectionLimit with {used} outbound connections, max {:?}", self.max_out));
                        }
                    }
                    _ => {}
                }
            }
            Act::AddKnown { p, a } => {
                let n = sys.node.litep2p.add_known_address(peer(*p), std::iter::once(addr(*p, *a)));
                allowed.push((addr(*p, *a), None));
                if n != 1 {
                    self.v(sys, "c10/valid-address-not-added", format!("add_known_address returned {n} for a valid address of the peer"));
                }
            }
            Act::ProtoDial { p } => {
                let _ = sys.mon.cmd.send(MonitorCmd::Dial(peer(*p)));
            }
            Act::Opened { id, a, errors, t } => {
                let addrs = sys.open_out.remove(&(*t, *id)).expect("enabled");
                sys.tr_of.insert(*id, *t);
                let address = addrs[*a].clone();
                let errs: Vec<(Multiaddr, DialError)> = if *errors {
                    addrs.iter().filter(|x| **x != address).map(|x| (x.clone(), DialError::Timeout)).collect()
                } else {
                    vec![]
                };
                allowed.push((address.clone(), Some(CONNECTION_ESTABLISHED)));
                for (x, _) in &errs {
                    allowed.push((x.clone(), Some(CONNECTION_FAILURE)));
                }
                sys.opened_wait.insert(*id, address.clone());
                Self::scr(sys, *t).emit(TransportEvent::ConnectionOpened { connection_id: ConnectionId::from(*id), address, errors: errs });
            }
            Act::OpenedNegotiateFails { id, a, t } => {
                let addrs = sys.open_out.remove(&(*t, *id)).expect("enabled");
                sys.tr_of.insert(*id, *t);
                let address = addrs[*a].clone();
                allowed.push((address.clone(), Some(CONNECTION_ESTABLISHED)));
                sys.opened_wait.insert(*id, address.clone());
                Self::scr(sys, *t).0.lock().fail_negotiate.push(*id);
                Self::scr(sys, *t).emit(TransportEvent::ConnectionOpened { connection_id: ConnectionId::from(*id), address, errors: vec![] });
            }
            Act::OpenFail { id, t } => {
                let addrs = sys.open_out.remove(&(*t, *id)).expect("enabled");
                let errs: Vec<(Multiaddr, DialError)> = addrs.iter().map(|x| (x.clone(), DialError::Timeout)).collect();
                for x in &addrs {
                    allowed.push((x.clone(), Some(CONNECTION_FAILURE)));
                }
                Self::scr(sys, *t).emit(TransportEvent::OpenFailure { connection_id: ConnectionId::from(*id), errors: errs });
            }
            Act::Established { id } => {
                let address = sys.nego_out.remove(id).or_else(|| sys.dial_out.remove(id)).expect("enabled");
                let t = sys.tr_of.get(id).copied().unwrap_or(0);
                let p = peer_of_addr(&address).unwrap();
                let ep = Endpoint::Dialer { address: address.clone(), connection_id: ConnectionId::from(*id) };
                allowed.push((address, Some(CONNECTION_ESTABLISHED)));
                sys.est_wait.insert(*id, (p, ep.clone()));
                Self::scr(sys, t).emit(TransportEvent::ConnectionEstablished { peer: peer(p), endpoint: ep });
            }
            Act::DialFail { id } => {
                let address = sys.dial_out.remove(id).expect("enabled");
                allowed.push((address.clone(), Some(CONNECTION_FAILURE)));
                let t = sys.tr_of.get(id).copied().unwrap_or(0);
                Self::scr(sys, t).emit(TransportEvent::DialFailure {
                    connection_id: ConnectionId::from(*id),
                    address,
                    error: DialError::NegotiationError(NegotiationError::Timeout),
                });
            }
            Act::InboundPending { p } => {
                let id = sys.node.script.fresh_connection_id();
                sys.inbound_pending.insert(id.verif_raw(), *p);
                sys.node.script.emit(TransportEvent::PendingInboundConnection { connection_id: id });
            }
            Act::InboundEstablished { id } => {
                let p = sys.inbound_nego.remove(id).expect("enabled");
                let address: Multiaddr = format!("/ip4/10.9.{p}.9/tcp/{}", 40000 + *id).parse().unwrap();
                let ep = Endpoint::Listener { address, connection_id: ConnectionId::from(*id) };
                sys.est_wait.insert(*id, (p, ep.clone()));
                sys.node.script.emit(TransportEvent::ConnectionEstablished { peer: peer(p), endpoint: ep });
            }
            Act::InboundVanish { id } => {
                sys.inbound_nego.remove(id);
            }
            Act::InboundEstablishedAcceptFails { id } => {
                let p = sys.inbound_nego.remove(id).expect("enabled");
                let address: Multiaddr = format!("/ip4/10.9.{p}.9/tcp/{}", 40000 + *id).parse().unwrap();
                let ep = Endpoint::Listener { address, connection_id: ConnectionId::from(*id) };
                sys.est_wait.insert(*id, (p, ep.clone()));
                sys.accept_call_fails.insert(*id);
                sys.node.script.0.lock().fail_accept_call.push(*id);
                sys.node.script.emit(TransportEvent::ConnectionEstablished { peer: peer(p), endpoint: ep });
            }
            Act::AcceptDone { id } => {
                let (p, ep) = sys.accept_wait.remove(id).expect("enabled");
                let inbound = ep.is_listener();
                let t = sys.tr_of.get(id).copied().unwrap_or(0);
                Self::scr(sys, t).decide_accept(*id, AcceptDecision::Proceed { peer: peer(p), endpoint: ep });
                sys.node.settle();
                if Self::scr(sys, t).has_connection(*id) {
                    sys.kept.insert(*id, (p, inbound));
                } else {
                    // the accept future failed (a protocol is gone): the manager rolls the connection back
                    sys.accepted.remove(id);
                    let label = if sys.mon_exited || sys.mon.log.lock().iter().any(|s| matches!(s, Seen::Exited)) {
                        "accept-rolled-back-after-protocol-exit"
                    } else {
                        "accept-rolled-back"
                    };
                    if let Some(at) = sys.attempts.get_mut(id) {
                        at.last_call = label;
                    }
                    // attempts that were cancelled in favour of this connection are left without any outcome
                    if !sys.accepted.values().any(|(q, _)| *q == p) {
                        for at in sys.attempts.values_mut() {
                            if at.peer == p && at.outcome == Some(Outcome::Superseded) {
                                at.outcome = None;
                                at.last_call = if label == "accept-rolled-back" { "cancel-then-accept-rolled-back" } else { "cancel-then-accept-rolled-back-after-protocol-exit" };
                            }
                        }
                    }
                }
            }
            Act::Close { id } => {
                let (p, _) = sys.kept.remove(id).expect("enabled");
                sys.accepted.remove(id);
                let t = sys.tr_of.get(id).copied().unwrap_or(0);
                if let Some((pid, mut pset)) = Self::scr(sys, t).take_connection(*id) {
                    let cid = ConnectionId::from(*id);
                    // the connection task's last act
                    let done = poll_now(async { pset.report_connection_closed(pid, cid).await });
                    if done.is_none() {
                        self.v(sys, "c05/close-report-blocked", format!("report_connection_closed for {id} (peer {p}) did not complete"));
                    }
                }
            }
            Act::MonitorExit => {
                let _ = sys.mon.cmd.send(MonitorCmd::Exit);
            }
        }
        self.absorb(sys, &pre);
        self.check_book_delta(sys, &pre, &allowed, &what);
        // report the first violation that belongs to this check's property
        let vs: Vec<Viol> = std::mem::take(&mut sys.violations).into_iter().filter(|v| v.signature.starts_with(self.filter)).collect();
        let (known, mut new): (Vec<Viol>, Vec<Viol>) = vs.into_iter().partition(|v| self.known.contains(&v.signature));
        if !new.is_empty() {
            return Err(new.remove(0));
        }
        if !known.is_empty() {
            return Ok(Step::Findings(known));
        }
        if sys.tie_cut {
            return Ok(Step::Prune);
        }
        Ok(Step::Ok)
    }

    fn canon(&self, sys: &Sys) -> Vec<u8> {
        // relabel connection ids by rank among all ids that still matter
        let mut ids: BTreeSet<usize> = BTreeSet::new();
        let s = &sys.snapshot;
        for p in &s.peers {
            ids.extend(p.records.iter().map(|(c, _)| c.verif_raw()));
        }
        ids.extend(s.pending_connections.iter().map(|(c, _)| c.verif_raw()));
        ids.extend(s.opening_errors.iter().map(|c| c.verif_raw()));
        ids.extend(s.counted_incoming.iter().map(|c| c.verif_raw()));
        ids.extend(s.counted_outgoing.iter().map(|c| c.verif_raw()));
        for m in [&sys.open_out.keys().map(|(_, id)| *id).collect::<Vec<_>>(), &sys.opened_wait.keys().copied().collect(), &sys.nego_out.keys().copied().collect(), &sys.dial_out.keys().copied().collect(), &sys.inbound_pending.keys().copied().collect(), &sys.inbound_nego.keys().copied().collect(), &sys.est_wait.keys().copied().collect(), &sys.accept_wait.keys().copied().collect(), &sys.kept.keys().copied().collect(), &sys.accepted.keys().copied().collect()] {
            ids.extend(m.iter().copied());
        }
        ids.extend(sys.attempts.iter().filter(|(_, a)| a.outcome.is_none()).map(|(id, _)| *id));
        let rank: BTreeMap<usize, usize> = ids.iter().enumerate().map(|(i, id)| (*id, i)).collect();
        let r = |id: usize| rank.get(&id).copied().unwrap_or(999);
        let peers: Vec<_> = s
            .peers
            .iter()
            .map(|p| {
                (
                    (0..=N_PEERS).find(|i| peer(*i) == p.peer).unwrap_or(255),
                    p.state,
                    p.records.iter().map(|(c, a)| (r(c.verif_raw()), a.to_string())).collect::<Vec<_>>(),
                    p.opening_addresses.iter().map(|a| a.to_string()).collect::<Vec<_>>(),
                    p.address_book.iter().map(|(a, sc)| (a.to_string(), *sc)).collect::<Vec<_>>(),
                )
            })
            .collect();
        let rk = |m: &BTreeMap<usize, Multiaddr>| m.iter().map(|(id, a)| (r(*id), a.to_string())).collect::<Vec<_>>();
        format!(
            "{:?}|{:?}|{:?}|{:?}|{:?}|{}|{:?}|{:?}|{:?}|{:?}|{:?}|{:?}|{:?}|{:?}|{:?}|{}|{}|{:?}|{:?}",
            peers,
            s.pending_connections.iter().map(|(c, p)| (r(c.verif_raw()), (0..=N_PEERS).find(|i| peer(*i) == *p))).collect::<Vec<_>>(),
            s.opening_errors.iter().map(|c| r(c.verif_raw())).collect::<Vec<_>>(),
            s.counted_incoming.iter().map(|c| r(c.verif_raw())).collect::<Vec<_>>(),
            s.counted_outgoing.iter().map(|c| r(c.verif_raw())).collect::<Vec<_>>(),
            s.pending_accepts,
            sys.open_out.iter().map(|((t, id), a)| (*t, r(*id), a.iter().map(|x| x.to_string()).collect::<Vec<_>>())).collect::<Vec<_>>(),
            rk(&sys.opened_wait),
            rk(&sys.nego_out),
            rk(&sys.dial_out),
            sys.inbound_pending.iter().map(|(id, p)| (r(*id), *p)).collect::<Vec<_>>(),
            sys.inbound_nego.iter().map(|(id, p)| (r(*id), *p)).collect::<Vec<_>>(),
            sys.est_wait.iter().map(|(id, (p, e))| (r(*id), *p, e.is_listener())).collect::<Vec<_>>(),
            sys.accept_wait.iter().map(|(id, (p, e))| (r(*id), *p, e.is_listener())).collect::<Vec<_>>(),
            sys.kept.iter().map(|(id, v)| (r(*id), *v)).collect::<Vec<_>>(),
            sys.mon_exited,
            sys.attempts.len().min(4),
            sys.attempts.iter().filter(|(_, a)| a.outcome.is_none()).map(|(id, a)| (r(*id), a.peer)).collect::<Vec<_>>(),
            (sys.proto_dial_failures.iter().map(|(p, n)| (*p, *n as i64 - sys.mgr_failures.get(p).copied().unwrap_or(0) as i64)).collect::<Vec<_>>()),
        )
        .into_bytes()
    }

    fn has_probe(&self) -> bool {
        true
    }

    /// Quiescent probes on a throw-away rebuild: a peer with no connection and no activity must be dialable and
    /// the dial must reach the transport; below its limits the node must accept an inbound connection.
    fn probe(&self, sys: &mut Sys) -> Result<(), Viol> {
        let rt = sys.rt.clone();
        let _g = rt.enter();
        let busy = |sys: &Sys, p: u8| -> bool {
            sys.attempts.values().any(|a| a.peer == p && a.outcome.is_none())
                || sys.inbound_pending.values().any(|q| *q == p)
                || sys.inbound_nego.values().any(|q| *q == p)
                || sys.est_wait.values().any(|(q, _)| *q == p)
                || sys.accept_wait.values().any(|(q, _)| *q == p)
                || sys.accepted.values().any(|(q, _)| *q == p)
        };
        for p in 1..=N_PEERS {
            if busy(sys, p) {
                continue;
            }
            let has_addr = sys.snapshot.peers.iter().any(|ps| ps.peer == peer(p) && !ps.address_book.is_empty());
            if !has_addr {
                continue;
            }
            if self.filter == "c05" || self.filter == "c06" {
                let used_out = sys.accepted.values().filter(|(_, i)| !*i).count();
                let r = poll_now(sys.node.litep2p.dial(&peer(p)));
                sys.node.settle();
                let mut calls = sys.node.script.take_calls();
                if let Some(ws) = &sys.node.script_ws {
                    calls.extend(ws.take_calls());
                }
                let reached = calls.iter().any(|c| matches!(c, Call::Open { .. } | Call::Dial { .. }));
                match r {
                    Some(Ok(())) => {
                        if !reached && self.filter == "c05" {
                            let st = sys.snapshot.peers.iter().find(|ps| ps.peer == peer(p)).map(|ps| ps.state).unwrap_or("?");
                            let cause = sys.attempts.values().filter(|a| a.peer == p).last().map(|a| a.last_call).unwrap_or("none");
                            return Err(Viol::new(
                                format!("c05/wedged/dial-ok-but-not-attempted/state-{st}/after-{cause}"),
                                format!("peer {p} has no connection and no network activity, dial() returned Ok but nothing was dialed (manager state: {st})"),
                            ));
                        }
                    }
                    Some(Err(litep2p::Error::ConnectionLimit(_))) => {
                        if self.filter == "c06" && self.max_out.map_or(true, |m| used_out < m) {
                            return Err(Viol::new("c06/dial-refused-below-outbound-limit", format!("probe dial({p}) refused with {used_out} outbound connections, max {:?}", self.max_out)));
                        }
                    }
                    Some(Err(litep2p::Error::AlreadyConnected)) => {
                        if self.filter == "c05" {
                            return Err(Viol::new("c05/wedged/already-connected-without-connection", format!("peer {p} has no connection but dial() answers AlreadyConnected")));
                        }
                    }
                    Some(Err(e)) => {
                        if self.filter == "c05" {
                            return Err(Viol::new("c05/wedged/dial-error", format!("peer {p} is idle with known addresses but dial() fails: {e:?}")));
                        }
                    }
                    None => return Err(Viol::new("c05/dial-pending", "dial did not complete")),
                }
                // only one probe per rebuild (the dial changed the state)
                return Ok(());
            }
        }
        if self.filter == "c06" {
            // release probe: inbound from an unconnected, idle peer must be accepted when below the inbound limit
            for p in 1..=N_PEERS {
                if busy(sys, p) {
                    continue;
                }
                let used_in = sys.accepted.values().filter(|(_, i)| *i).count();
                if self.max_in.is_some_and(|m| used_in >= m) {
                    continue;
                }
                let id = sys.node.script.fresh_connection_id();
                sys.node.script.emit(TransportEvent::PendingInboundConnection { connection_id: id });
                sys.node.settle();
                let calls = sys.node.script.take_calls();
                if !calls.iter().any(|c| matches!(c, Call::AcceptPending { .. })) {
                    return Err(Viol::new("c06/capacity-not-released/pending-rejected", format!("below the inbound limit ({used_in} of {:?}) a pending inbound connection was not accepted", self.max_in)));
                }
                let address: Multiaddr = "/ip4/10.9.9.9/tcp/41000".parse().unwrap();
                let ep = Endpoint::Listener { address, connection_id: id };
                sys.node.script.emit(TransportEvent::ConnectionEstablished { peer: peer(p), endpoint: ep });
                sys.node.settle();
                let calls = sys.node.script.take_calls();
                if !calls.iter().any(|c| matches!(c, Call::Accept { .. })) {
                    return Err(Viol::new("c06/capacity-not-released/connection-rejected", format!("below the inbound limit ({used_in} of {:?}) an inbound connection from idle peer {p} was rejected", self.max_in)));
                }
                return Ok(());
            }
        }
        Ok(())
    }
}

pub fn limit_configs() -> Vec<(Option<usize>, Option<usize>)> {
    vec![(None, None), (Some(0), Some(0)), (Some(1), Some(1)), (Some(2), Some(1))]
}

pub fn run_filtered(ctx: &mut Ctx, filter: &'static str) {
    let depth = ctx.tier.pick(5, 7);
    let ex = Explorer { max_depth: depth, max_states: 3_000_000, recheck_every: 13, ..Default::default() };
    let mut configs = limit_configs();
    if filter == "c06" {
        // one-sided configurations: a limit on one direction must not be charged for the other direction
        configs.push((None, Some(1)));
        configs.push((Some(1), None));
    }
    for (max_in, max_out) in configs {
        let known: BTreeSet<String> = crate::report::load_known_findings()
            .into_iter()
            .filter(|k| k.property.eq_ignore_ascii_case(filter))
            .map(|k| k.signature)
            .collect();
        // the last root only differs from what the initial state reaches when an inbound limit can bite after a first
        // inbound connection was let in
        // (quick tier: only where the first inbound connection fills the limit)
        let racing = if ctx.tier == crate::report::Tier::Thorough { max_in.is_some_and(|m| m >= 1) } else { max_in == Some(1) };
        let roots: &[&'static str] = match filter {
            "c06" if racing => &["", "p1-inbound-and-dial-in-flight+p2-outbound", "p1-two-connections", "p1-opening+two-inbound-pending"],
            "c06" => &["", "p1-inbound-and-dial-in-flight+p2-outbound", "p1-two-connections"],
            "c05" if racing => &["", "p1-opening+two-inbound-pending"],
            _ => &[""],
        };
        for root in roots {
            let m = MgrModel { max_in, max_out, depth, filter, known: known.clone(), root, ws: false };
            let out = ex.run(&m);
            let label = if root.is_empty() { format!("manager[max_in={max_in:?},max_out={max_out:?}]") } else { format!("manager[max_in={max_in:?},max_out={max_out:?},root={root}]") };
            e1::absorb(ctx, &label, out);
        }
    }
    // an outbound limit of 2 of which one slot is taken: a dial by peer id may try one address, not two
    if filter == "c10" {
        let m = MgrModel { max_in: None, max_out: Some(2), depth, filter, known: BTreeSet::new(), root: "p2-outbound-established", ws: false };
        let out = ex.run(&m);
        e1::absorb(ctx, "manager[max_in=None,max_out=Some(2),root=p2-outbound-established]", out);
    }
    // two transports (TCP + WebSocket): one dial by peer id runs on both, under one connection id
    if filter == "c05" || filter == "c10" {
        let known: BTreeSet<String> = crate::report::load_known_findings()
            .into_iter()
            .filter(|k| k.property.eq_ignore_ascii_case(filter))
            .map(|k| k.signature)
            .collect();
        for (max_in, max_out) in [(None, None), (Some(1), Some(1))] {
            let m = MgrModel { max_in, max_out, depth, filter, known: known.clone(), root: "", ws: true };
            let out = ex.run(&m);
            e1::absorb(ctx, &format!("manager[two-transports,max_in={max_in:?},max_out={max_out:?}]"), out);
        }
    }
    ctx.cov("depth_bound", depth as u64);
    ctx.cov(
        "rule",
        "E1 BFS over all stimulus histories up to depth_bound on a real Litep2p over the scripted transport: dial / dial_address / add_known_address / \
         protocol-side dial, every feasible transport answer for every outstanding call, inbound connections, accept completion, closures, protocol exit; \
         per limit configuration; states deduplicated on the manager snapshot + harness ledger with connection ids relabelled",
    );
    ctx.assume("the scripted transport only does what the real TcpTransport can do (DESIGN §2.3): no event after cancel/reject, negotiate never fails after ConnectionOpened, fresh ids for inbound");
    ctx.assume("two remote peers with two addresses each; at most 4 dial attempts and 2 concurrent inbound negotiations per history");
    ctx.assume("tokio::select! branch order inside TransportManager::next is fixed by the runtime's rng seed; one stimulus is injected at a time so at most one branch is ready");
}

pub fn replay(case: &Value) -> Result<String, String> {
    let cfg = &case["config"];
    let filter: &'static str = match cfg["filter"].as_str() {
        Some("c05") => "c05",
        Some("c06") => "c06",
        _ => "c10",
    };
    let m = MgrModel {
        max_in: cfg["max_in"].as_u64().map(|x| x as usize),
        max_out: cfg["max_out"].as_u64().map(|x| x as usize),
        depth: 99,
        filter,
        known: crate::report::load_known_findings().into_iter().map(|k| k.signature).collect(),
        ws: cfg["ws"].as_bool().unwrap_or(false),
        root: match cfg["root"].as_str() {
            Some("p1-inbound-and-dial-in-flight+p2-outbound") => "p1-inbound-and-dial-in-flight+p2-outbound",
            Some("p1-two-connections") => "p1-two-connections",
            Some("p1-opening+two-inbound-pending") => "p1-opening+two-inbound-pending",
            Some("p2-outbound-established") => "p2-outbound-established",
            _ => "",
        },
    };
    let actions: Vec<Act> = serde_json::from_value(case["actions"].clone()).map_err(|e| e.to_string())?;
    e1::replay_actions(&m, &actions, case["probe"].as_bool().unwrap_or(false))
}
