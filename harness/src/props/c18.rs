//! C18 — peer ids are canonical, round-trip and match the libp2p reference.
//!
//! Engine E3: exhaustive enumeration of stated finite input grids through the real `litep2p::PeerId`
//! constructors / parsers, with a differential oracle against `libp2p_identity::PeerId` (the reference
//! implementation, which is also the `multiaddr::PeerId` type) and an independent hand-assembled
//! recomputation of the key -> id derivation.
//!
//! Sub-checks (all exhaustive over their grid, simplest first):
//!  * `all_short_bytes`    every byte string of length 0, 1, 2 (thorough: + two length-3 families)
//!  * `multihash_grid`     code x declared-length x (actual - declared) x fill, incl. non-minimal / long varints
//!  * `mutated_valid_ids`  every truncation, single-byte substitution and one-byte extension of 4 valid ids
//!  * `text`               near-valid base58 strings derived from the 4 valid ids + fixed corner strings
//!  * `multiaddr_shapes`   address shapes with /p2p first / last / absent
//!  * `key_blobs`          every blob length 0..=100 x fills through `from_public_key_protobuf`
//!  * `ed25519_keys`       seeds 0..N through `from_public_key`, vs `libp2p_identity`'s derivation

use crate::{
    mc::e1,
    report::{Ctx, Tier, Violation},
    util,
};
use libp2p_identity::PeerId as RefId;
use litep2p::{crypto::PublicKey, PeerId};
use multiaddr::{Multiaddr, Protocol};
use serde::Serialize;
use serde_json::{json, Value};
use std::{
    collections::HashSet,
    panic::{catch_unwind, AssertUnwindSafe},
    str::FromStr,
};

type Mh = multihash::Multihash<64>;

// ------------------------------------------------------------------------------------------------
// a minimal non-human-readable serde format: one value, either a byte string or a string
// ------------------------------------------------------------------------------------------------

mod wire {
    use serde::{de, ser, Serialize};
    use std::fmt;

    #[derive(Debug)]
    pub struct Error(pub String);

    impl fmt::Display for Error {
        fn fmt(&self, f: &mut fmt::Formatter<'_>) -> fmt::Result {
            f.write_str(&self.0)
        }
    }
    impl std::error::Error for Error {}
    impl ser::Error for Error {
        fn custom<T: fmt::Display>(m: T) -> Self {
            Error(m.to_string())
        }
    }
    impl de::Error for Error {
        fn custom<T: fmt::Display>(m: T) -> Self {
            Error(m.to_string())
        }
    }

    #[derive(Debug, Clone, PartialEq, Eq)]
    pub enum Val {
        Bytes(Vec<u8>),
        Str(String),
    }

    fn unsupported<T>(what: &str) -> Result<T, Error> {
        Err(Error(format!("{what} is not supported by the bytes-only test format")))
    }

    /// Serializer that reports `is_human_readable() == false` and can hold exactly one bytes / str value.
    pub struct Ser;

    macro_rules! no_prim {
        ($($f:ident: $t:ty),* $(,)?) => {
            $(fn $f(self, _v: $t) -> Result<Val, Error> { unsupported(stringify!($f)) })*
        };
    }

    impl ser::Serializer for Ser {
        type Ok = Val;
        type Error = Error;
        type SerializeSeq = ser::Impossible<Val, Error>;
        type SerializeTuple = ser::Impossible<Val, Error>;
        type SerializeTupleStruct = ser::Impossible<Val, Error>;
        type SerializeTupleVariant = ser::Impossible<Val, Error>;
        type SerializeMap = ser::Impossible<Val, Error>;
        type SerializeStruct = ser::Impossible<Val, Error>;
        type SerializeStructVariant = ser::Impossible<Val, Error>;

        no_prim!(
            serialize_bool: bool, serialize_i8: i8, serialize_i16: i16, serialize_i32: i32, serialize_i64: i64,
            serialize_u8: u8, serialize_u16: u16, serialize_u32: u32, serialize_u64: u64,
            serialize_f32: f32, serialize_f64: f64, serialize_char: char,
        );

        fn serialize_str(self, v: &str) -> Result<Val, Error> {
            Ok(Val::Str(v.to_string()))
        }
        fn serialize_bytes(self, v: &[u8]) -> Result<Val, Error> {
            Ok(Val::Bytes(v.to_vec()))
        }
        fn serialize_none(self) -> Result<Val, Error> {
            unsupported("none")
        }
        fn serialize_some<T: ?Sized + Serialize>(self, _v: &T) -> Result<Val, Error> {
            unsupported("some")
        }
        fn serialize_unit(self) -> Result<Val, Error> {
            unsupported("unit")
        }
        fn serialize_unit_struct(self, _n: &'static str) -> Result<Val, Error> {
            unsupported("unit struct")
        }
        fn serialize_unit_variant(self, _n: &'static str, _i: u32, _v: &'static str) -> Result<Val, Error> {
            unsupported("unit variant")
        }
        fn serialize_newtype_struct<T: ?Sized + Serialize>(self, _n: &'static str, v: &T) -> Result<Val, Error> {
            v.serialize(self)
        }
        fn serialize_newtype_variant<T: ?Sized + Serialize>(
            self,
            _n: &'static str,
            _i: u32,
            _v: &'static str,
            _value: &T,
        ) -> Result<Val, Error> {
            unsupported("newtype variant")
        }
        fn serialize_seq(self, _l: Option<usize>) -> Result<Self::SerializeSeq, Error> {
            unsupported("seq")
        }
        fn serialize_tuple(self, _l: usize) -> Result<Self::SerializeTuple, Error> {
            unsupported("tuple")
        }
        fn serialize_tuple_struct(self, _n: &'static str, _l: usize) -> Result<Self::SerializeTupleStruct, Error> {
            unsupported("tuple struct")
        }
        fn serialize_tuple_variant(
            self,
            _n: &'static str,
            _i: u32,
            _v: &'static str,
            _l: usize,
        ) -> Result<Self::SerializeTupleVariant, Error> {
            unsupported("tuple variant")
        }
        fn serialize_map(self, _l: Option<usize>) -> Result<Self::SerializeMap, Error> {
            unsupported("map")
        }
        fn serialize_struct(self, _n: &'static str, _l: usize) -> Result<Self::SerializeStruct, Error> {
            unsupported("struct")
        }
        fn serialize_struct_variant(
            self,
            _n: &'static str,
            _i: u32,
            _v: &'static str,
            _l: usize,
        ) -> Result<Self::SerializeStructVariant, Error> {
            unsupported("struct variant")
        }
        fn is_human_readable(&self) -> bool {
            false
        }
    }

    /// how the deserializer hands a byte string to the visitor (real formats differ in this)
    #[derive(Clone, Copy, Debug)]
    pub enum Mode {
        Transient,
        Owned,
        Borrowed,
    }

    pub const MODES: [Mode; 3] = [Mode::Transient, Mode::Owned, Mode::Borrowed];

    pub struct De<'de> {
        pub val: &'de Val,
        pub mode: Mode,
    }

    impl<'de> de::Deserializer<'de> for De<'de> {
        type Error = Error;

        fn deserialize_any<V: de::Visitor<'de>>(self, visitor: V) -> Result<V::Value, Error> {
            match (self.val, self.mode) {
                (Val::Bytes(b), Mode::Transient) => visitor.visit_bytes(b),
                (Val::Bytes(b), Mode::Owned) => visitor.visit_byte_buf(b.clone()),
                (Val::Bytes(b), Mode::Borrowed) => visitor.visit_borrowed_bytes(b),
                (Val::Str(s), Mode::Transient) => visitor.visit_str(s),
                (Val::Str(s), Mode::Owned) => visitor.visit_string(s.clone()),
                (Val::Str(s), Mode::Borrowed) => visitor.visit_borrowed_str(s),
            }
        }

        serde::forward_to_deserialize_any! {
            bool i8 i16 i32 i64 i128 u8 u16 u32 u64 u128 f32 f64 char str string bytes byte_buf option unit
            unit_struct newtype_struct seq tuple tuple_struct map struct enum identifier ignored_any
        }

        fn is_human_readable(&self) -> bool {
            false
        }
    }
}

// ------------------------------------------------------------------------------------------------
// oracle plumbing
// ------------------------------------------------------------------------------------------------

#[derive(Debug, Clone)]
struct Fail {
    sig: String,
    what: String,
}

/// Everything observed for one input.
#[derive(Default)]
struct Obs {
    /// accepted by litep2p on at least one parse path
    lite: bool,
    /// accepted by the reference on at least one parse path
    reference: bool,
    /// got past the first parse step (multihash framing / base58 decoding) even if rejected afterwards
    past_first: bool,
    /// number of convert-and-back checks performed on accepted ids
    conversions: u64,
    fails: Vec<Fail>,
    log: Vec<String>,
}

impl Obs {
    fn fail(&mut self, sig: impl Into<String>, what: impl Into<String>) {
        let f = Fail { sig: sig.into(), what: what.into() };
        self.log.push(format!("FAIL [{}] {}", f.sig, f.what));
        self.fails.push(f);
    }

    /// run a subject call under catch_unwind; a panic is a violation
    fn guard<T>(&mut self, site: &str, input: &str, f: impl FnOnce() -> T) -> Option<T> {
        match catch_unwind(AssertUnwindSafe(f)) {
            Ok(v) => Some(v),
            Err(_) => {
                let msg = e1::take_panic();
                self.fail(format!("panic/{}", e1::panic_site(&msg)), format!("{site} panicked on {input}: {msg}"));
                None
            }
        }
    }

    /// differential acceptance oracle: `lite` and `reference` are the accepted ids as bytes (None = rejected)
    fn diff(&mut self, oracle: &str, input: &str, lite: Option<Vec<u8>>, reference: Option<Vec<u8>>) {
        self.log.push(format!(
            "{oracle}({input}): litep2p={} reference={}",
            lite.as_deref().map(util::hex).unwrap_or_else(|| "reject".into()),
            reference.as_deref().map(util::hex).unwrap_or_else(|| "reject".into())
        ));
        self.lite |= lite.is_some();
        self.reference |= reference.is_some();
        match (lite, reference) {
            (Some(l), None) => self.fail(
                format!("{oracle}/accepts-what-reference-rejects"),
                format!("{oracle}: litep2p accepted {input} as peer id {} but the reference rejects it", util::hex(&l)),
            ),
            (None, Some(r)) => self.fail(
                format!("{oracle}/rejects-what-reference-accepts"),
                format!("{oracle}: litep2p rejected {input} but the reference accepts it as peer id {}", util::hex(&r)),
            ),
            (Some(l), Some(r)) if l != r => self.fail(
                format!("{oracle}/accepted-id-differs-from-reference"),
                format!("{oracle}: for {input} litep2p produced {} but the reference produced {}", util::hex(&l), util::hex(&r)),
            ),
            _ => {}
        }
    }
}

fn varint(n: u64) -> Vec<u8> {
    let mut buf = unsigned_varint::encode::u64_buffer();
    unsigned_varint::encode::u64(n, &mut buf).to_vec()
}

fn unhex(s: &str) -> Result<Vec<u8>, String> {
    if s.len() % 2 != 0 || !s.is_ascii() {
        return Err(format!("bad hex {s:?}"));
    }
    (0..s.len() / 2)
        .map(|i| u8::from_str_radix(&s[2 * i..2 * i + 2], 16).map_err(|e| format!("bad hex {s:?}: {e}")))
        .collect()
}

const ADDR_PREFIX: &str = "/ip4/1.2.3.4/tcp/1";
/// binary form of `ADDR_PREFIX`: ip4(4) 1.2.3.4, tcp(6) port 1
const ADDR_PREFIX_BYTES: [u8; 8] = [0x04, 1, 2, 3, 4, 0x06, 0, 1];

/// `try_from_multiaddr` oracle, formulated on the reference type: the result is the id of the LAST component iff
/// that component is `/p2p`, else `None`.
fn check_multiaddr(obs: &mut Obs, oracle: &str, addr: &Multiaddr) {
    let input = format!("multiaddr {addr}");
    let expected = match addr.iter().last() {
        Some(Protocol::P2p(r)) => Some(r.to_bytes()),
        _ => None,
    };
    if let Some(got) = obs.guard("PeerId::try_from_multiaddr", &input, || PeerId::try_from_multiaddr(addr)) {
        let got = got.and_then(|id| obs.guard("PeerId::to_bytes", &input, || id.to_bytes()));
        obs.diff(oracle, &input, got, expected);
    }
}

/// All conversions of an accepted id and back must give the same id.
fn roundtrips(obs: &mut Obs, id: PeerId) {
    let Some(bytes) = obs.guard("PeerId::to_bytes", "accepted id", || id.to_bytes()) else { return };
    let d = format!("id {}", util::hex(&bytes));
    macro_rules! expect_same {
        ($sig:expr, $got:expr, $via:expr) => {
            obs.conversions += 1;
            match $got {
                Some(Some(back)) if back == id => {}
                Some(other) => obs.fail(
                    concat!("roundtrip/", $sig),
                    format!(
                        "{d}: converting via {} and back gave {:?}, expected the same id",
                        $via,
                        other.map(|p: PeerId| util::hex(&p.to_bytes()))
                    ),
                ),
                None => {} // panic already recorded
            }
        };
    }

    // bytes
    let got = obs.guard("PeerId::from_bytes", &d, || PeerId::from_bytes(&bytes).ok());
    expect_same!("bytes", got, format!("to_bytes {}", util::hex(&bytes)));
    let got = obs.guard("PeerId::try_from(Vec<u8>)", &d, || PeerId::try_from(bytes.clone()).ok());
    expect_same!("bytes-try-from-vec", got, "Vec<u8>");
    let got = obs.guard("Vec<u8>::from(PeerId)", &d, || PeerId::from_bytes(&Vec::<u8>::from(id)).ok());
    expect_same!("bytes-into-vec", got, "Vec<u8>::from");
    let got = obs.guard("Multihash::from(PeerId)", &d, || PeerId::from_multihash(Mh::from(id)).ok());
    expect_same!("multihash", got, "Multihash::from / from_multihash");

    // base58 text
    if let Some(s) = obs.guard("PeerId::to_base58", &d, || id.to_base58()) {
        let got = obs.guard("PeerId::from_str", &d, || PeerId::from_str(&s).ok());
        expect_same!("base58", got, format!("to_base58 {s:?}"));
    }
    if let Some(s) = obs.guard("PeerId::to_string", &d, || id.to_string()) {
        let got = obs.guard("PeerId::from_str", &d, || PeerId::from_str(&s).ok());
        expect_same!("display", got, format!("Display {s:?}"));
    }

    // multiaddr component
    obs.conversions += 1;
    let fallible = obs.guard("PeerId::to_multiaddr_peer_id", &d, || id.to_multiaddr_peer_id());
    match &fallible {
        Some(Ok(m)) if m.to_bytes() == bytes => {}
        Some(Ok(m)) => obs.fail(
            "roundtrip/multiaddr-peer-id",
            format!("{d}: to_multiaddr_peer_id gave a different id {}", util::hex(&m.to_bytes())),
        ),
        Some(Err(_)) => obs.fail(
            "roundtrip/multiaddr-peer-id-rejected",
            format!("{d}: to_multiaddr_peer_id failed: the multiaddr/reference PeerId rejects an id litep2p accepted"),
        ),
        None => {}
    }
    if let Some(mid) = obs.guard("From<PeerId> for multiaddr::PeerId", &d, || multiaddr::PeerId::from(id)) {
        if mid.to_bytes() != bytes {
            obs.fail(
                "roundtrip/multiaddr-peer-id",
                format!("{d}: multiaddr::PeerId::from gave a different id {}", util::hex(&mid.to_bytes())),
            );
        }
        let bare = Multiaddr::empty().with(Protocol::P2p(mid));
        let got = obs.guard("PeerId::try_from_multiaddr", &d, || PeerId::try_from_multiaddr(&bare));
        expect_same!("multiaddr-component", got, format!("{bare}"));
        let full = ADDR_PREFIX.parse::<Multiaddr>().expect("constant").with(Protocol::P2p(mid));
        let got = obs.guard("PeerId::try_from_multiaddr", &d, || PeerId::try_from_multiaddr(&full));
        expect_same!("multiaddr-component", got, format!("{full}"));
        let text = full.to_string();
        match text.parse::<Multiaddr>() {
            Ok(a) => {
                let got = obs.guard("PeerId::try_from_multiaddr", &d, || PeerId::try_from_multiaddr(&a));
                expect_same!("multiaddr-text", got, format!("text {text}"));
            }
            Err(e) => obs.fail("roundtrip/multiaddr-text", format!("{d}: {text} does not parse back: {e}")),
        }
        match Multiaddr::try_from(full.to_vec()) {
            Ok(a) => {
                let got = obs.guard("PeerId::try_from_multiaddr", &d, || PeerId::try_from_multiaddr(&a));
                expect_same!("multiaddr-bytes", got, "binary multiaddr");
            }
            Err(e) => obs.fail("roundtrip/multiaddr-bytes", format!("{d}: binary form of {text} does not parse back: {e}")),
        }
    }

    // serde, human readable (JSON)
    match obs.guard("PeerId::serialize(json)", &d, || serde_json::to_string(&id)) {
        Some(Ok(js)) => {
            let got = obs.guard("PeerId::deserialize(json)", &d, || serde_json::from_str::<PeerId>(&js).ok());
            expect_same!("serde-json", got, format!("JSON {js}"));
            let got = obs.guard("PeerId::deserialize(json value)", &d, || {
                serde_json::from_str::<Value>(&js).ok().and_then(|v| serde_json::from_value::<PeerId>(v).ok())
            });
            expect_same!("serde-json", got, format!("JSON value {js}"));
        }
        Some(Err(e)) => obs.fail("roundtrip/serde-json-serialize-error", format!("{d}: JSON serialization failed: {e}")),
        None => {}
    }
    // serde, not human readable
    match obs.guard("PeerId::serialize(bytes)", &d, || id.serialize(wire::Ser)) {
        Some(Ok(val)) => {
            for mode in wire::MODES {
                let got = obs.guard("PeerId::deserialize(bytes)", &d, || {
                    <PeerId as serde::Deserialize>::deserialize(wire::De { val: &val, mode }).ok()
                });
                expect_same!("serde-bytes", got, format!("non-human-readable form {val:?} ({mode:?})"));
            }
        }
        Some(Err(e)) => obs.fail(
            "roundtrip/serde-bytes-serialize-error",
            format!("{d}: serialization with a non-human-readable serializer failed: {e}"),
        ),
        None => {}
    }
}

/// text-level paths shared by the byte and the text checks; returns the id `from_str` accepted, if any
fn text_paths(obs: &mut Obs, s: &str) -> Option<PeerId> {
    let input = format!("text {s:?}");
    let reference = RefId::from_str(s).ok().map(|r| r.to_bytes());
    let lite = obs.guard("PeerId::from_str", &input, || PeerId::from_str(s).ok());
    let mut accepted = None;
    if let Some(l) = lite {
        accepted = l;
        let lb = l.and_then(|id| obs.guard("PeerId::to_bytes", &input, || id.to_bytes()));
        obs.diff("from_str", &input, lb, reference.clone());
    }
    // JSON string
    let js = serde_json::to_string(s).expect("string to JSON");
    if let Some(l) = obs.guard("PeerId::deserialize(json)", &input, || serde_json::from_str::<PeerId>(&js).ok()) {
        let lb = l.and_then(|id| obs.guard("PeerId::to_bytes", &input, || id.to_bytes()));
        obs.diff("serde-json-deserialize", &input, lb, reference.clone());
    }
    // multiaddr in text form
    let text = format!("{ADDR_PREFIX}/p2p/{s}");
    match obs.guard("Multiaddr::from_str", &input, || text.parse::<Multiaddr>()) {
        Some(Ok(addr)) => {
            check_multiaddr(obs, "multiaddr-text", &addr);
            if let Some(rb) = &reference {
                let last = addr.iter().last();
                if !matches!(&last, Some(Protocol::P2p(p)) if &p.to_bytes() == rb) {
                    obs.fail(
                        "multiaddr-text/component-differs-from-reference",
                        format!("{text} parsed to last component {last:?}, reference id is {}", util::hex(rb)),
                    );
                }
            }
        }
        Some(Err(e)) => {
            obs.log.push(format!("multiaddr-text({text:?}): does not parse ({e})"));
            if reference.is_some() {
                obs.fail(
                    "multiaddr-text/rejects-what-reference-accepts",
                    format!("{text:?} does not parse as a multiaddress ({e}) although the reference accepts the peer id"),
                );
            }
        }
        None => {}
    }
    accepted
}

fn check_text(s: &str) -> Obs {
    let mut obs = Obs::default();
    obs.past_first = bs58::decode(s).into_vec().is_ok();
    if let Some(id) = text_paths(&mut obs, s) {
        roundtrips(&mut obs, id);
    }
    obs
}

fn check_bytes(b: &[u8]) -> Obs {
    let mut obs = Obs::default();
    let input = format!("bytes {}", util::hex(b));
    obs.past_first = Mh::from_bytes(b).is_ok();
    let reference = RefId::from_bytes(b).ok().map(|r| r.to_bytes());

    // bytes
    let lite = obs.guard("PeerId::from_bytes", &input, || PeerId::from_bytes(b).ok());
    let mut accepted = None;
    if let Some(l) = lite {
        accepted = l;
        let lb = l.and_then(|id| obs.guard("PeerId::to_bytes", &input, || id.to_bytes()));
        obs.diff("from_bytes", &input, lb, reference.clone());
    }
    if let Some(l) = obs.guard("PeerId::try_from(Vec<u8>)", &input, || PeerId::try_from(b.to_vec()).ok()) {
        let lb = l.and_then(|id| obs.guard("PeerId::to_bytes", &input, || id.to_bytes()));
        obs.diff("try_from_vec", &input, lb, reference.clone());
    }
    // non-human-readable serde form
    let val = wire::Val::Bytes(b.to_vec());
    for mode in wire::MODES {
        if let Some(l) = obs.guard("PeerId::deserialize(bytes)", &input, || {
            <PeerId as serde::Deserialize>::deserialize(wire::De { val: &val, mode }).ok()
        }) {
            let lb = l.and_then(|id| obs.guard("PeerId::to_bytes", &input, || id.to_bytes()));
            obs.diff("serde-bytes-deserialize", &input, lb, reference.clone());
        }
    }
    // multiaddr in binary form: <prefix> p2p(421) varint(len) bytes
    let mut raw = ADDR_PREFIX_BYTES.to_vec();
    raw.extend_from_slice(&varint(421));
    raw.extend_from_slice(&varint(b.len() as u64));
    raw.extend_from_slice(b);
    match obs.guard("Multiaddr::try_from(Vec<u8>)", &input, || Multiaddr::try_from(raw.clone())) {
        Some(Ok(addr)) => {
            check_multiaddr(&mut obs, "multiaddr-bytes", &addr);
            if let Some(rb) = &reference {
                let last = addr.iter().last();
                if !matches!(&last, Some(Protocol::P2p(p)) if &p.to_bytes() == rb) {
                    obs.fail(
                        "multiaddr-bytes/component-differs-from-reference",
                        format!("binary multiaddr {} parsed to last component {last:?}, reference id is {}", util::hex(&raw), util::hex(rb)),
                    );
                }
            }
        }
        Some(Err(e)) => {
            obs.log.push(format!("multiaddr-bytes({}): does not parse ({e})", util::hex(&raw)));
            if reference.is_some() {
                obs.fail(
                    "multiaddr-bytes/rejects-what-reference-accepts",
                    format!("binary multiaddr {} does not parse ({e}) although the reference accepts the peer id", util::hex(&raw)),
                );
            }
        }
        None => {}
    }
    // base58 text of the same bytes: from_str, JSON, textual multiaddr
    let s = bs58::encode(b).into_string();
    let via_text = text_paths(&mut obs, &s);
    // round trips of whatever was accepted (the differential oracles above already flag the two disagreeing)
    if let Some(id) = accepted.or(via_text) {
        roundtrips(&mut obs, id);
    }
    obs
}

/// independent recomputation of the spec'd derivation from the protobuf encoding of a key
fn expected_id_bytes(key_enc: &[u8]) -> Vec<u8> {
    let mut out = Vec::new();
    if key_enc.len() <= 42 {
        out.push(0x00); // identity
        out.push(key_enc.len() as u8); // < 128: one-byte varint
        out.extend_from_slice(key_enc);
    } else {
        out.push(0x12); // sha2-256
        out.push(0x20);
        out.extend_from_slice(&util::sha256(key_enc));
    }
    out
}

fn check_blob(blob: &[u8]) -> Obs {
    let mut obs = Obs::default();
    obs.past_first = true;
    let input = format!("key blob[{}] {}", blob.len(), util::hex(blob));
    let expected = expected_id_bytes(blob);
    let Some(id) = obs.guard("PeerId::from_public_key_protobuf", &input, || PeerId::from_public_key_protobuf(blob)) else {
        return obs;
    };
    let Some(got) = obs.guard("PeerId::to_bytes", &input, || id.to_bytes()) else { return obs };
    obs.lite = true;
    obs.log.push(format!("from_public_key_protobuf({input}) = {} expected {}", util::hex(&got), util::hex(&expected)));
    if got != expected {
        let class = if blob.len() <= 42 { "inline" } else { "hashed" };
        obs.fail(
            format!("derivation/{class}-key-id-differs-from-spec"),
            format!(
                "{input}: litep2p derived {} but the {} multihash of the encoding is {}",
                util::hex(&got),
                if blob.len() <= 42 { "identity" } else { "sha2-256" },
                util::hex(&expected)
            ),
        );
    }
    // the reference must accept what litep2p produced (and agree on it)
    match RefId::from_bytes(&got) {
        Ok(r) if r.to_bytes() == got => obs.reference = true,
        Ok(r) => obs.fail(
            "derivation/reference-reads-different-id",
            format!("{input}: reference re-reads {} as {}", util::hex(&got), util::hex(&r.to_bytes())),
        ),
        Err(e) => obs.fail(
            "derivation/reference-rejects-derived-id",
            format!("{input}: litep2p derived {} which the reference rejects: {e}", util::hex(&got)),
        ),
    }
    match Mh::from_bytes(&got).map_err(|e| e.to_string()).and_then(|m| RefId::from_multihash(m).map_err(|_| "from_multihash".to_string())) {
        Ok(_) => {}
        Err(e) => obs.fail(
            "derivation/reference-rejects-derived-id",
            format!("{input}: litep2p derived {} which reference from_multihash rejects ({e})", util::hex(&got)),
        ),
    }
    roundtrips(&mut obs, id);
    // and the produced bytes must behave like any other accepted input
    let sub = check_bytes(&got);
    obs.conversions += sub.conversions;
    obs.log.extend(sub.log);
    obs.fails.extend(sub.fails);
    obs
}

fn check_key(seed: u64) -> Obs {
    let mut obs = Obs::default();
    obs.past_first = true;
    let kp = util::keypair(seed);
    let raw = kp.public().to_bytes();
    let input = format!("ed25519 seed {seed} public key {}", util::hex(&raw));
    // reference derivation
    let reference = libp2p_identity::ed25519::PublicKey::try_from_bytes(&raw)
        .map(|k| libp2p_identity::PublicKey::from(k).to_peer_id().to_bytes());
    let reference = match reference {
        Ok(r) => r,
        Err(e) => {
            obs.fail("machinery/reference-rejects-key", format!("{input}: reference cannot load the key: {e}"));
            return obs;
        }
    };
    obs.reference = true;
    // protobuf: field 1 (varint) = 1 (Ed25519), field 2 (bytes) = 32-byte key; 36 bytes <= 42 -> identity
    let mut by_hand = vec![0x00, 0x24, 0x08, 0x01, 0x12, 0x20];
    by_hand.extend_from_slice(&raw);
    if by_hand != reference {
        obs.fail("machinery/reference-differs-from-spec", format!("{input}: reference {} vs by hand {}", util::hex(&reference), util::hex(&by_hand)));
    }
    let pk = PublicKey::Ed25519(kp.public());
    let mut first = None;
    let sites: [(&str, Box<dyn Fn() -> PeerId>); 4] = [
        ("PeerId::from_public_key", Box::new(|| PeerId::from_public_key(&pk))),
        ("PublicKey::to_peer_id", Box::new(|| pk.to_peer_id())),
        ("ed25519::PublicKey::to_peer_id", Box::new(|| kp.public().to_peer_id())),
        ("PeerId::from(PublicKey)", Box::new(|| PeerId::from(pk.clone()))),
    ];
    for (site, f) in sites.iter() {
        let Some(id) = obs.guard(site, &input, f) else { continue };
        let Some(got) = obs.guard("PeerId::to_bytes", &input, || id.to_bytes()) else { continue };
        obs.lite = true;
        obs.log.push(format!("{site}({input}) = {} reference {}", util::hex(&got), util::hex(&reference)));
        if got != reference {
            obs.fail(
                "derivation/ed25519-id-differs-from-reference",
                format!("{input}: {site} gave {} but libp2p-identity derives {}", util::hex(&got), util::hex(&reference)),
            );
        }
        first.get_or_insert(id);
    }
    drop(sites);
    if let Some(id) = first {
        roundtrips(&mut obs, id);
    }
    let sub = check_bytes(&reference);
    obs.conversions += sub.conversions;
    obs.log.extend(sub.log);
    obs.fails.extend(sub.fails);
    obs
}

fn check_addr_text(text: &str) -> Obs {
    let mut obs = Obs::default();
    match obs.guard("Multiaddr::from_str", text, || text.parse::<Multiaddr>()) {
        Some(Ok(addr)) => {
            obs.past_first = true;
            check_multiaddr(&mut obs, "multiaddr-shape", &addr);
            // binary form of the same address
            if let Ok(a2) = Multiaddr::try_from(addr.to_vec()) {
                check_multiaddr(&mut obs, "multiaddr-shape", &a2);
            }
        }
        Some(Err(e)) => obs.log.push(format!("{text:?} is not a multiaddress: {e}")),
        None => {}
    }
    obs
}

// ------------------------------------------------------------------------------------------------
// input grids
// ------------------------------------------------------------------------------------------------

fn fill(kind: u8, len: usize) -> Vec<u8> {
    match kind {
        0 => vec![0x00; len],
        1 => vec![0xff; len],
        2 => (0..len).map(|i| (i as u8).wrapping_add(1)).collect(),
        3 => vec![0x2a; len],
        4 => vec![0x80; len],
        _ => (0..len).map(|i| 0xffu8.wrapping_sub(i as u8)).collect(),
    }
}

fn multihash_grid(tier: Tier) -> Vec<Vec<u8>> {
    let rep = |first: u8, n: usize, last: u8| {
        let mut v = vec![first];
        v.extend(std::iter::repeat(0x80).take(n));
        v.push(last);
        v
    };
    let codes: Vec<Vec<u8>> = vec![
        vec![0x00],            // identity
        vec![0x12],            // sha2-256
        vec![0x11],            // sha1
        vec![0x13],            // sha2-512
        vec![0x1b],            // keccak-256
        vec![0x7f],            // largest one-byte varint
        varint(0xb220),        // blake2b-256, three-byte varint
        vec![0x80, 0x00],      // non-minimal 0x00
        vec![0x92, 0x00],      // non-minimal 0x12
        vec![0x80, 0x80, 0x00],
        vec![0x92, 0x80, 0x00],
        rep(0x80, 7, 0x01),    // 9-byte varint, 2^56
        rep(0x92, 7, 0x00),    // 9-byte non-minimal 0x12
        {
            let mut v = vec![0xff; 9];
            v.push(0x01); // 10-byte varint, u64::MAX
            v
        },
        rep(0x80, 8, 0x00),    // 10-byte non-minimal 0
        rep(0x92, 8, 0x00),    // 10-byte non-minimal 0x12
        {
            let mut v = vec![0xff; 9];
            v.push(0x02); // 10-byte varint overflowing u64
            v
        },
        rep(0x80, 9, 0x01),    // 11-byte varint
    ];
    let mut lens: Vec<u64> = (0..=tier.pick(66u64, 130)).collect();
    lens.extend([127u64, 128, 255]);
    if tier == Tier::Thorough {
        lens.extend([256u64, 300, 16384, u64::MAX]);
    }
    lens.sort();
    lens.dedup();
    let nonminimal_lens = [0u64, 32, 36, 42, 43, 64];
    let fills: &[u8] = tier.pick(&[0, 1, 2], &[0, 1, 2, 3, 4, 5]);
    let mut out = Vec::new();
    for code in &codes {
        let mut len_encodings: Vec<(u64, Vec<u8>)> = lens.iter().map(|l| (*l, varint(*l))).collect();
        for l in nonminimal_lens {
            len_encodings.push((l, vec![l as u8 | 0x80, 0x00]));
        }
        for (declared, enc) in &len_encodings {
            for delta in [0i64, -1, 1, 2] {
                // huge declared lengths: the digest actually supplied is capped (the framing must reject anyway)
                let base = (*declared).min(400) as i64;
                let actual = base + delta;
                if actual < 0 {
                    continue;
                }
                for f in fills {
                    let mut v = code.clone();
                    v.extend_from_slice(enc);
                    v.extend_from_slice(&fill(*f, actual as usize));
                    out.push(v);
                }
            }
        }
    }
    out
}

/// the four valid base ids of sub-checks (iii), text and multiaddr
fn base_ids() -> Vec<(&'static str, Vec<u8>)> {
    let ed = expected_id_bytes(&{
        let mut enc = vec![0x08, 0x01, 0x12, 0x20];
        enc.extend_from_slice(&util::keypair(1).public().to_bytes());
        enc
    });
    let sha = expected_id_bytes(&[0x2a; 43]);
    let id42 = expected_id_bytes(&fill(2, 42));
    let id32 = expected_id_bytes(&fill(5, 32)); // the shape of PeerId::random()
    vec![("identity-ed25519", ed), ("sha2-256", sha), ("identity-42", id42), ("identity-32", id32)]
}

fn mutated_ids(tier: Tier) -> Vec<Vec<u8>> {
    let subst: Vec<u8> = match tier {
        Tier::Quick => vec![0x00, 0x7f, 0x80, 0xff],
        Tier::Thorough => (0..=255).collect(),
    };
    let mut out = Vec::new();
    for (_, id) in base_ids() {
        out.push(id.clone());
        for k in 0..id.len() {
            out.push(id[..k].to_vec());
        }
        for off in 0..id.len() {
            for s in &subst {
                let mut v = id.clone();
                v[off] = *s;
                out.push(v);
            }
        }
        for s in &subst {
            let mut v = id.clone();
            v.push(*s);
            out.push(v);
        }
    }
    out
}

fn text_grid(tier: Tier) -> Vec<String> {
    let mut out: Vec<String> = vec![
        "".into(),
        " ".into(),
        "\n".into(),
        "1".into(),
        "11".into(),
        "0".into(),
        "é".into(),
        "/".into(),
        // examples from the libp2p peer-id spec: sha2-256 id, ed25519 identity id, CIDv1 text form
        "QmYyQSo1c1Ym7orWxLYvCrM2EmxFTANf8wXmmE7DWjhx5N".into(),
        "12D3KooWD3eckifWpRn9wQpMG9R9hX3sD158z7EqHWmweQAJU5SA".into(),
        "bafzbeie5745rpv2m6tjyuugywy4d5ewrqgqqhfnf445he3omzpjbx5xqxe".into(),
    ];
    let subst: Vec<char> = match tier {
        Tier::Quick => vec!['0', 'O', 'I', 'l', ' ', '\n', '+', '/', '-', '_', '1', 'z', 'é'],
        Tier::Thorough => (0x20u8..0x7f).map(|c| c as char).chain(['\n', '\t', '\0', 'é']).collect(),
    };
    for (_, id) in base_ids() {
        let s = bs58::encode(&id).into_string();
        let chars: Vec<char> = s.chars().collect();
        out.push(s.clone());
        for k in 0..chars.len() {
            out.push(chars[..k].iter().collect());
        }
        for off in 0..chars.len() {
            for c in &subst {
                let mut v = chars.clone();
                v[off] = *c;
                out.push(v.into_iter().collect());
            }
        }
        for (pre, post) in [(" ", ""), ("", " "), ("", "\n"), ("\t", ""), ("", "\0"), ("z", ""), ("", "1"), ("1", ""), ("", "0")] {
            out.push(format!("{pre}{s}{post}"));
        }
        out.push(s.to_uppercase());
        out.push(s.to_lowercase());
        out.push(format!("f{}", util::hex(&id)));
    }
    out
}

fn addr_grid() -> Vec<String> {
    let ids: Vec<String> = base_ids().iter().map(|(_, b)| bs58::encode(b).into_string()).collect();
    let mut out = vec!["".to_string(), ADDR_PREFIX.to_string(), "/p2p-circuit".to_string(), "/dns4/a.example/tcp/443/wss".to_string()];
    for (i, x) in ids.iter().enumerate() {
        let y = &ids[(i + 1) % ids.len()];
        out.push(format!("/p2p/{x}"));
        out.push(format!("/ipfs/{x}"));
        out.push(format!("{ADDR_PREFIX}/p2p/{x}"));
        out.push(format!("/ip6/::1/udp/30333/quic-v1/p2p/{x}"));
        out.push(format!("/dns4/a.example/tcp/443/wss/p2p/{x}"));
        out.push(format!("/p2p/{x}/p2p-circuit"));
        out.push(format!("{ADDR_PREFIX}/p2p/{x}/p2p-circuit"));
        out.push(format!("{ADDR_PREFIX}/p2p/{x}/p2p-circuit/p2p/{y}"));
        out.push(format!("/p2p/{x}{ADDR_PREFIX}"));
        out.push(format!("/p2p/{x}/p2p/{y}"));
    }
    out
}

// ------------------------------------------------------------------------------------------------
// run / replay
// ------------------------------------------------------------------------------------------------

#[derive(Default)]
struct Acc {
    evaluations: u64,
    distinct: HashSet<u128>,
    nontrivial: HashSet<u128>,
    accepted_both: u64,
    rejected_both: u64,
    rejected_after_first_step: u64,
    disagreements: u64,
    failing_inputs: u64,
    conversions: u64,
}

struct Runner<'a> {
    ctx: &'a mut Ctx,
    all_distinct: HashSet<u128>,
    all_nontrivial: HashSet<u128>,
    sample_classes: HashSet<String>,
}

fn case_hash(kind: &str, payload: &[u8]) -> u128 {
    let mut v = kind.as_bytes().to_vec();
    v.push(0);
    v.extend_from_slice(payload);
    e1::hash128(&v)
}

impl Runner<'_> {
    fn absorb(&mut self, acc: &mut Acc, sub: &str, kind: &str, payload: &[u8], case: Value, obs: Obs) {
        acc.evaluations += 1;
        acc.conversions += obs.conversions;
        let h = case_hash(kind, payload);
        acc.distinct.insert(h);
        self.all_distinct.insert(h);
        let nontrivial = obs.lite || obs.reference || obs.past_first;
        if nontrivial {
            acc.nontrivial.insert(h);
            self.all_nontrivial.insert(h);
        }
        match (obs.lite, obs.reference) {
            (true, true) => acc.accepted_both += 1,
            (false, false) => {
                acc.rejected_both += 1;
                if obs.past_first {
                    acc.rejected_after_first_step += 1;
                }
            }
            _ => acc.disagreements += 1,
        }
        if !obs.fails.is_empty() {
            acc.failing_inputs += 1;
        }
        // one sample per (sub-check, outcome class), capped by Ctx
        let class = format!(
            "{sub}/{}",
            match (obs.lite, obs.reference, obs.past_first) {
                (true, true, _) => "accepted-by-both",
                (false, false, true) => "rejected-by-both-after-first-parse-step",
                (false, false, false) => "rejected-by-both-at-first-parse-step",
                _ => "disagreement",
            }
        );
        // samples: the first accepted case of every sub-check, the first structurally valid but rejected case of
        // the byte/text grids, one rejected-at-framing case, and every disagreement (Ctx caps the total)
        let wanted = class.ends_with("accepted-by-both")
            || class.ends_with("disagreement")
            || (class.ends_with("after-first-parse-step") && !matches!(sub, "multiaddr_shapes" | "mutated_valid_ids"))
            || class == "multihash_grid/rejected-by-both-at-first-parse-step";
        if wanted && self.sample_classes.insert(class.clone()) {
            let short = |l: &String| if l.len() > 260 { format!("{}...", l.chars().take(260).collect::<String>()) } else { l.clone() };
            let observations: Vec<String> = obs.log.iter().take(2).map(short).collect();
            self.ctx.sample(json!({ "class": class, "case": case, "observations": observations, "oracle_evaluations": obs.log.len() }));
        }
        for f in obs.fails {
            self.ctx.violation(Violation { signature: f.sig, what: f.what, replay: case.clone() });
        }
    }

    fn finish_sub(&mut self, name: &str, acc: Acc, grid: &str) {
        self.ctx.cov_add("evaluations", acc.evaluations);
        self.ctx.cov_add("roundtrip_conversions_checked", acc.conversions);
        self.ctx.sub(
            name,
            json!({
                "grid": grid,
                "evaluations": acc.evaluations,
                "distinct_inputs": acc.distinct.len(),
                "distinct_nontrivial": acc.nontrivial.len(),
                "accepted_by_both": acc.accepted_both,
                "rejected_by_both": acc.rejected_both,
                "rejected_by_both_after_first_parse_step": acc.rejected_after_first_step,
                "acceptance_disagreements": acc.disagreements,
                "inputs_with_violations": acc.failing_inputs,
                "roundtrip_conversions_checked": acc.conversions,
            }),
        );
    }

    fn run_bytes(&mut self, name: &str, grid: &str, inputs: impl IntoIterator<Item = Vec<u8>>) {
        let mut acc = Acc::default();
        for b in inputs {
            let obs = check_bytes(&b);
            self.absorb(&mut acc, name, "bytes", &b, json!({ "kind": "bytes", "input_hex": util::hex(&b) }), obs);
        }
        self.finish_sub(name, acc, grid);
    }
}

pub fn run(ctx: &mut Ctx) {
    let tier = ctx.tier;
    let mut r = Runner { ctx, all_distinct: HashSet::new(), all_nontrivial: HashSet::new(), sample_classes: HashSet::new() };

    // (i) all short byte strings
    let mut short: Vec<Vec<u8>> = vec![vec![]];
    for a in 0..=255u8 {
        short.push(vec![a]);
    }
    for a in 0..=255u8 {
        for b in 0..=255u8 {
            short.push(vec![a, b]);
        }
    }
    let mut grid_i = "all byte strings of length 0, 1 and 2".to_string();
    if tier == Tier::Thorough {
        const ALPHA: [u8; 8] = [0x00, 0x01, 0x12, 0x20, 0x22, 0x7f, 0x80, 0xff];
        for a in ALPHA {
            for b in ALPHA {
                for c in ALPHA {
                    short.push(vec![a, b, c]);
                }
            }
        }
        for a in [0x00u8, 0x12] {
            for b in 0..=255u8 {
                for c in 0..=255u8 {
                    short.push(vec![a, b, c]);
                }
            }
        }
        grid_i.push_str("; all length-3 strings over {00,01,12,20,22,7f,80,ff}; all length-3 strings starting with 00 or 12");
    }
    r.run_bytes("all_short_bytes", &grid_i, short);

    // (ii) structured multihash grid
    r.run_bytes(
        "multihash_grid",
        "code in {00,12,11,13,1b,7f,b220, non-minimal 00/12 in 2,3,9,10 bytes, 9/10/11-byte varints incl. u64::MAX and overflow} \
         x declared length (0..=66 quick / 0..=130 thorough, 127,128,255[,256,300,16384,u64::MAX]; + non-minimal encodings of 0,32,36,42,43,64) \
         x actual-declared in {0,-1,1,2} x fill {00,ff,counter[,2a,80,down-counter]}",
        multihash_grid(tier),
    );

    // (iii) mutations of valid ids
    r.run_bytes(
        "mutated_valid_ids",
        "4 valid ids (identity/ed25519, sha2-256, identity with 42-byte digest, identity with 32-byte digest): the id, every \
         truncation, every single-byte substitution at every offset and every one-byte extension, values {00,7f,80,ff} (thorough: all 256)",
        mutated_ids(tier),
    );

    // text
    {
        let mut acc = Acc::default();
        for s in text_grid(tier) {
            let obs = check_text(&s);
            r.absorb(&mut acc, "text", "text", s.as_bytes(), json!({ "kind": "text", "input_text": s }), obs);
        }
        r.finish_sub(
            "text",
            acc,
            "base58 of the 4 valid ids: every truncation, every single-character substitution at every offset from \
             {0,O,I,l,space,newline,+,/,-,_,1,z,é} (thorough: all printable ASCII + \\n,\\t,NUL,é), whitespace / multibase / extra-character \
             prefixes and suffixes, case changes; plus fixed corner strings and the peer-id spec examples",
        );
    }

    // multiaddr shapes
    {
        let mut acc = Acc::default();
        for s in addr_grid() {
            let obs = check_addr_text(&s);
            r.absorb(&mut acc, "multiaddr_shapes", "multiaddr", s.as_bytes(), json!({ "kind": "multiaddr", "input_text": s }), obs);
        }
        r.finish_sub(
            "multiaddr_shapes",
            acc,
            "4 addresses without /p2p and 10 shapes per valid id with /p2p last, first, in the middle, twice (text and binary form)",
        );
    }

    // (iv) key blobs
    {
        let mut acc = Acc::default();
        let fills: &[u8] = tier.pick(&[0, 1, 2], &[0, 1, 2, 3, 4, 5]);
        let max_len = tier.pick(100usize, 300);
        for len in 0..=max_len {
            for f in fills {
                let blob = fill(*f, len);
                let obs = check_blob(&blob);
                r.absorb(&mut acc, "key_blobs", "key_blob", &blob, json!({ "kind": "key_blob", "input_hex": util::hex(&blob) }), obs);
            }
            // a blob shaped like a protobuf key message: type varint + length-delimited data
            if len >= 4 {
                let mut blob = vec![0x08, 0x01, 0x12, (len - 4).min(127) as u8];
                blob.extend(fill(2, len - 4));
                let obs = check_blob(&blob);
                r.absorb(&mut acc, "key_blobs", "key_blob", &blob, json!({ "kind": "key_blob", "input_hex": util::hex(&blob) }), obs);
            }
        }
        r.finish_sub(
            "key_blobs",
            acc,
            "every blob length 0..=100 (thorough 0..=300) x fills {00,ff,counter[,2a,80,down-counter]} + one protobuf-shaped blob per length >= 4",
        );
    }

    // (v) ed25519 keys
    {
        let mut acc = Acc::default();
        let n = tier.pick(256u64, 4096);
        for seed in 0..n {
            let obs = check_key(seed);
            r.absorb(&mut acc, "ed25519_keys", "ed25519_seed", &seed.to_be_bytes(), json!({ "kind": "ed25519_seed", "seed": seed }), obs);
        }
        r.finish_sub("ed25519_keys", acc, "ed25519 keys from util::keypair(seed), seed in 0..256 (thorough 0..4096)");
    }

    let distinct = r.all_distinct.len() as u64;
    let nontrivial = r.all_nontrivial.len() as u64;
    let ctx = r.ctx;
    ctx.cov("distinct_inputs", distinct);
    ctx.cov("distinct_nontrivial", nontrivial);
    ctx.cov("exhaustive", true);
    ctx.cov(
        "rule",
        "E3 exhaustive enumeration of every element of each stated grid (no sampling). An input is DISTINCT by (kind, exact \
         bytes/text) and counted NON-TRIVIAL if litep2p or the reference accepted it on some parse path, or it got past the \
         first parse step (well-framed multihash for bytes, base58-decodable for text, parseable for a multiaddress; key blobs \
         and keys always produce an id). Every input: differential acceptance + equal bytes vs libp2p_identity::PeerId for \
         from_bytes / TryFrom<Vec<u8>> / non-human-readable serde / binary multiaddr / from_str / JSON / textual multiaddr; every \
         accepted id: bytes, multihash, base58, Display, multiaddr component (infallible and fallible conversion), textual \
         and binary multiaddr, JSON and bytes-only serde round trips; every subject call under catch_unwind.",
    );
    ctx.assume("the reference is libp2p-identity 0.2.14 (the crate multiaddr 0.18.2 uses as its PeerId); multihash framing of both sides comes from the multihash crate version in Cargo.lock");
    ctx.assume("the reference for try_from_multiaddr is rust-libp2p's historical rule: the id of the LAST component iff it is /p2p (also what the doc comment promises)");
    ctx.assume("deserialization through serde is treated as a parse path: it must accept exactly the bytes / base58 text the reference accepts");
    ctx.assume("the non-human-readable serde format is a one-value bytes/str format written for this check (is_human_readable() == false, visit_bytes / visit_byte_buf / visit_borrowed_bytes)");
    ctx.assume("key -> id derivation for non-key blobs is checked against a hand-assembled multihash (00 len blob / 12 20 sha256(blob), sha256 from the sha2 crate); only ed25519 keys exist in litep2p::crypto::PublicKey");
}

pub fn replay(case: &Value) -> Result<String, String> {
    let kind = case["kind"].as_str().ok_or("case.kind missing")?;
    let obs = match kind {
        "bytes" => check_bytes(&unhex(case["input_hex"].as_str().ok_or("input_hex missing")?)?),
        "key_blob" => check_blob(&unhex(case["input_hex"].as_str().ok_or("input_hex missing")?)?),
        "text" => check_text(case["input_text"].as_str().ok_or("input_text missing")?),
        "multiaddr" => check_addr_text(case["input_text"].as_str().ok_or("input_text missing")?),
        "ed25519_seed" => check_key(case["seed"].as_u64().ok_or("seed missing")?),
        other => return Err(format!("unknown case kind {other:?}")),
    };
    let mut log = obs.log.join("\n");
    if obs.fails.is_empty() {
        Ok(log)
    } else {
        log.push_str(&format!("\n{} oracle failure(s): {}", obs.fails.len(), obs.fails.iter().map(|f| f.sig.as_str()).collect::<Vec<_>>().join(", ")));
        Err(log)
    }
}
