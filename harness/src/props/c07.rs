//! C07 — a terminated connection is reported closed to everyone exactly once (oracles `c07/*` of the connection-lifecycle scenarios in `conn.rs`).
use crate::report::Ctx;

pub fn run(ctx: &mut Ctx) {
    super::conn::run_filtered(ctx, "c07");
}
