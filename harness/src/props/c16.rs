//! C16 — every Kademlia operation started by the user ends with exactly one terminal event.
//!
//! E2 (deviation-bounded schedule exploration) on SimNet: one local node L (under test) and three remote slots
//! R1..R3, all real `Litep2p` nodes with the real Kademlia protocol. L only *knows* the remotes (routing table +
//! transport-manager addresses through `KademliaHandle::add_known_peer`); connections are dialed on demand by
//! Kademlia. The outer loop enumerates operation x quorum x fault assignment (per remote slot) x topology x
//! pre-connection x local connection limit x kill-anywhere actions, simplest first; for each scenario the explorer runs
//! the FIFO schedule and every schedule with up to `bound` deviations, each to quiescence, then 40 idle clock ticks of
//! 1 s (substream-open timeout 5 s, Kademlia read/write timeouts 15 s) and evaluates the oracle on the log the user
//! task of L collected and on the bytes L put on each link.

use crate::{
    env::simnet::{NodeCmd, World},
    mc::{
        e1::Viol,
        e2::{self, Scenario, E2},
    },
    report::Ctx,
};
use futures::StreamExt;
use litep2p::{
    config::ConfigBuilder,
    protocol::{
        libp2p::kademlia::{ConfigBuilder as KadConfigBuilder, KademliaEvent, KademliaHandle, Quorum, Record, RecordKey},
        request_response::{ConfigBuilder as RrConfigBuilder, RequestResponseEvent, RequestResponseHandle},
    },
    transport::ConnectionLimitsConfig,
    types::protocol::ProtocolName,
    PeerId,
};
use multiaddr::Multiaddr;
use parking_lot::Mutex;
use serde::{Deserialize, Serialize};
use serde_json::Value;
use std::{
    collections::{BTreeMap, BTreeSet},
    num::NonZeroUsize,
    sync::Arc,
    time::Duration,
};

const KEY: &[u8] = b"c16-key-0123456789";
const KEY2: &[u8] = b"c16-second-key-012";
const VALUE: &[u8] = b"C16-RECORD-VALUE-MARKER";
const KAD_PROTOCOL: &str = "/ipfs/kad/1.0.0";
const REPLICATION: usize = 3;
const TICKS: u32 = 40;
/// 40 x 3 s = 120 s after quiescence: several times the longest timeout of the Kademlia code paths involved, so that a
/// retuning of those timeouts does not turn into "no terminal event"
const TICK_SECS: u64 = 3;

#[derive(Clone, Copy, Debug, Serialize, Deserialize, PartialEq, Eq, PartialOrd, Ord)]
pub enum OpKind {
    FindNode,
    PutRecord,
    PutRecordToPeers,
    GetRecord,
    StartProviding,
    GetProviders,
}

impl OpKind {
    fn name(self) -> &'static str {
        match self {
            OpKind::FindNode => "find-node",
            OpKind::PutRecord => "put-record",
            OpKind::PutRecordToPeers => "put-record-to-peers",
            OpKind::GetRecord => "get-record",
            OpKind::StartProviding => "start-providing",
            OpKind::GetProviders => "get-providers",
        }
    }
    fn has_quorum(self) -> bool {
        !matches!(self, OpKind::FindNode | OpKind::GetProviders)
    }
    /// terminal success event of the operation
    fn success_event(self) -> &'static str {
        match self {
            OpKind::FindNode => "FindNodeSuccess",
            OpKind::PutRecord | OpKind::PutRecordToPeers => "PutRecordSuccess",
            OpKind::GetRecord => "GetRecordSuccess",
            OpKind::StartProviding => "AddProviderSuccess",
            OpKind::GetProviders => "GetProvidersSuccess",
        }
    }
    fn sends_data(self) -> bool {
        matches!(self, OpKind::PutRecord | OpKind::PutRecordToPeers | OpKind::StartProviding)
    }
}

#[derive(Clone, Copy, Debug, Serialize, Deserialize, PartialEq, Eq)]
pub enum Q {
    One,
    N2,
    All,
}

impl Q {
    fn quorum(self) -> Quorum {
        match self {
            Q::One => Quorum::One,
            Q::N2 => Quorum::N(NonZeroUsize::new(2).unwrap()),
            Q::All => Quorum::All,
        }
    }
}

/// What is wrong with one remote slot.
#[derive(Clone, Copy, Debug, Serialize, Deserialize, PartialEq, Eq, PartialOrd, Ord)]
pub enum Fault {
    /// real Kademlia node, reachable
    Ok,
    /// the peer is announced with an EMPTY address list
    NoAddrEmpty,
    /// the peer is announced with one address of a transport the node does not run (QUIC): the Kademlia routing
    /// table keeps it, the transport manager has no usable address
    NoAddrUnsupported,
    /// the announced peer does not exist: every dial fails at the transport level
    Undialable,
    /// the node's process died before the operation: every dial fails
    Dead,
    /// reachable node that does not speak Kademlia: substream negotiation fails
    NoProto,
    /// reachable node that accepts Kademlia substreams and requests but never answers
    Silent,
    /// reachable Kademlia node whose Kademlia event loop has exited
    KadExited,
}

impl Fault {
    fn name(self) -> &'static str {
        match self {
            Fault::Ok => "ok",
            Fault::NoAddrEmpty => "target-with-empty-address-list",
            Fault::NoAddrUnsupported => "target-without-usable-address",
            Fault::Undialable => "target-undialable",
            Fault::Dead => "target-dead",
            Fault::NoProto => "target-without-kademlia",
            Fault::Silent => "target-silent",
            Fault::KadExited => "target-kademlia-exited",
        }
    }
    /// a node exists and accepts connections
    fn connectable(self) -> bool {
        matches!(self, Fault::Ok | Fault::NoProto | Fault::Silent | Fault::KadExited)
    }
}

#[derive(Clone, Copy, Debug, Serialize, Deserialize, PartialEq, Eq)]
pub enum Topo {
    /// L is told all three remotes
    Star,
    /// L is told R1 only; R1 knows R2 and R3 (L learns them from R1's replies)
    Chain,
}

#[derive(Clone, Debug, Serialize, Deserialize)]
pub struct KadScenario {
    pub op: OpKind,
    pub quorum: Q,
    pub faults: [Fault; 3],
    pub topo: Topo,
    /// L has connections to all connectable remotes before the operation starts
    pub preconnect: bool,
    /// `max_outgoing_connections` of L
    pub out_limit: Option<usize>,
    /// remote slots killed by lazy actions after the operation was issued (the scheduler may place them anywhere)
    pub kills: Vec<usize>,
    /// Ok remotes hold the record / are providers of the key before the operation
    pub seeded: bool,
    /// a second operation (quorum One) issued right after the first one; the scheduler interleaves them
    #[serde(default)]
    pub extra_op: Option<OpKind>,
    /// L holds the record in its own store before a `get_record`
    #[serde(default)]
    pub local_copy: bool,
    /// `max_provider_keys` of L's store; a second `start_providing` then uses a second key, which the store refuses
    #[serde(default)]
    pub provider_keys_limit: Option<usize>,
    /// every connection of L is lost (link cut) between the first and the second operation: the second one has to dial
    /// peers Kademlia already talked to
    #[serde(default)]
    pub cut_between: bool,
}

impl KadScenario {
    fn base(op: OpKind, quorum: Q, faults: [Fault; 3]) -> Self {
        KadScenario { op, quorum, faults, topo: Topo::Star, preconnect: false, out_limit: None, kills: vec![], seeded: true, extra_op: None, local_copy: false, provider_keys_limit: None, cut_between: false }
    }

    /// the operations the user of L issues, in order
    fn ops(&self) -> Vec<(OpKind, Q)> {
        let mut v = vec![(self.op, self.quorum)];
        if let Some(op) = self.extra_op {
            v.push((op, Q::One));
        }
        v
    }

    /// cause classes present in the scenario, canonical order
    fn fault_classes(&self) -> Vec<String> {
        let mut v: BTreeSet<String> = BTreeSet::new();
        for f in self.faults {
            if f != Fault::Ok {
                v.insert(f.name().to_string());
            }
        }
        if self.out_limit.is_some() {
            // without pre-established connections all dials start below the limit and the surplus negotiated
            // connections are rejected; with them the limit is already reached when Kademlia asks for a dial
            v.insert(if self.preconnect { "local-connection-limit-reached-before-dial" } else { "local-connection-limit" }.into());
        }
        if self.cut_between {
            v.insert("second-operation-after-connection-loss".into());
        } else if self.extra_op.is_some() {
            v.insert("two-operations".into());
        }
        if !self.kills.is_empty() {
            v.insert("target-killed-midway".into());
        }
        v.into_iter().collect()
    }

    fn fault_summary(&self) -> String {
        let c = self.fault_classes();
        if c.is_empty() {
            "no-fault".into()
        } else {
            c.join("+")
        }
    }
}

#[derive(Debug, Clone)]
enum LLog {
    Started { idx: usize, qid: usize },
    Event { name: &'static str, qid: Option<usize>, detail: String },
}

enum LCmd {
    AddKnown(PeerId, Vec<Multiaddr>),
    Run(usize, OpKind, Q, Vec<PeerId>),
    Store,
}

enum RCmd {
    AddKnown(PeerId, Vec<Multiaddr>),
    Store,
    Provide,
}

#[derive(Debug, Clone)]
#[allow(dead_code)]
enum RLog {
    IncomingRecord(Vec<u8>),
    IncomingProvider,
    RawRequest(usize),
}

pub struct St {
    l_cmd: tokio::sync::mpsc::UnboundedSender<LCmd>,
    l_log: Arc<Mutex<Vec<LLog>>>,
    /// kept so that the remote user tasks (and with them the remote Kademlia handles) stay alive
    _r_cmd: Vec<Option<tokio::sync::mpsc::UnboundedSender<RCmd>>>,
    r_logs: Vec<Arc<Mutex<Vec<RLog>>>>,
    /// node index of remote slot i (None: no node, the slot is a phantom peer)
    r_node: [Option<usize>; 3],
    /// peer id announced for slot i
    r_peer: [PeerId; 3],
    l_peer: PeerId,
    pc: usize,
}

fn event_entry(ev: &KademliaEvent) -> LLog {
    let (name, qid, detail): (&'static str, Option<usize>, String) = match ev {
        KademliaEvent::FindNodeSuccess { query_id, peers, .. } => ("FindNodeSuccess", Some(query_id.0), format!("{} peers", peers.len())),
        KademliaEvent::RoutingTableUpdate { peers } => ("RoutingTableUpdate", None, format!("{} peers", peers.len())),
        KademliaEvent::GetRecordSuccess { query_id } => ("GetRecordSuccess", Some(query_id.0), String::new()),
        KademliaEvent::GetRecordPartialResult { query_id, record } => ("GetRecordPartialResult", Some(query_id.0), format!("from {}", record.peer)),
        KademliaEvent::GetProvidersSuccess { query_id, providers, .. } => ("GetProvidersSuccess", Some(query_id.0), format!("{} providers", providers.len())),
        KademliaEvent::PutRecordSuccess { query_id, .. } => ("PutRecordSuccess", Some(query_id.0), String::new()),
        KademliaEvent::AddProviderSuccess { query_id, .. } => ("AddProviderSuccess", Some(query_id.0), String::new()),
        KademliaEvent::QueryFailed { query_id } => ("QueryFailed", Some(query_id.0), String::new()),
        KademliaEvent::IncomingRecord { .. } => ("IncomingRecord", None, String::new()),
        KademliaEvent::IncomingProvider { .. } => ("IncomingProvider", None, String::new()),
    };
    LLog::Event { name, qid, detail }
}

fn is_terminal(name: &str) -> bool {
    matches!(name, "FindNodeSuccess" | "GetRecordSuccess" | "GetProvidersSuccess" | "PutRecordSuccess" | "AddProviderSuccess" | "QueryFailed")
}

fn spawn_local_user(w: &mut World, node: usize, mut handle: KademliaHandle) -> (tokio::sync::mpsc::UnboundedSender<LCmd>, Arc<Mutex<Vec<LLog>>>) {
    let (tx, mut rx) = tokio::sync::mpsc::unbounded_channel::<LCmd>();
    let log = Arc::new(Mutex::new(Vec::new()));
    let l = log.clone();
    w.spawn_for(node, "kad-user", async move {
        loop {
            tokio::select! {
                biased;
                cmd = rx.recv() => match cmd {
                    None => return,
                    Some(LCmd::AddKnown(peer, addresses)) => handle.add_known_peer(peer, addresses).await,
                    Some(LCmd::Store) => handle.store_record(Record::new(KEY.to_vec(), VALUE.to_vec())).await,
                    Some(LCmd::Run(idx, op, q, peers)) => {
                        // a second announcement is for a second key
                        let key = if idx == 1 && op == OpKind::StartProviding { RecordKey::from(KEY2.to_vec()) } else { RecordKey::from(KEY.to_vec()) };
                        let qid = match op {
                            OpKind::FindNode => handle.find_node(crate::util::peer(990)).await,
                            OpKind::PutRecord => handle.put_record(Record::new(KEY.to_vec(), VALUE.to_vec()), q.quorum()).await,
                            OpKind::PutRecordToPeers =>
                                handle.put_record_to_peers(Record::new(KEY.to_vec(), VALUE.to_vec()), peers, true, q.quorum()).await,
                            OpKind::GetRecord => handle.get_record(key, q.quorum()).await,
                            OpKind::StartProviding => handle.start_providing(key, q.quorum()).await,
                            OpKind::GetProviders => handle.get_providers(key).await,
                        };
                        l.lock().push(LLog::Started { idx, qid: qid.0 });
                    }
                },
                ev = handle.next() => match ev {
                    None => return,
                    Some(ev) => l.lock().push(event_entry(&ev)),
                },
            }
        }
    });
    (tx, log)
}

fn spawn_remote_kad_user(w: &mut World, node: usize, mut handle: KademliaHandle) -> (tokio::sync::mpsc::UnboundedSender<RCmd>, Arc<Mutex<Vec<RLog>>>) {
    let (tx, mut rx) = tokio::sync::mpsc::unbounded_channel::<RCmd>();
    let log = Arc::new(Mutex::new(Vec::new()));
    let l = log.clone();
    w.spawn_for(node, "kad-remote-user", async move {
        loop {
            tokio::select! {
                biased;
                cmd = rx.recv() => match cmd {
                    None => return,
                    Some(RCmd::AddKnown(peer, addresses)) => handle.add_known_peer(peer, addresses).await,
                    Some(RCmd::Store) => handle.store_record(Record::new(KEY.to_vec(), VALUE.to_vec())).await,
                    Some(RCmd::Provide) => { let _ = handle.start_providing(RecordKey::from(KEY.to_vec()), Quorum::One).await; }
                },
                ev = handle.next() => match ev {
                    None => return,
                    Some(KademliaEvent::IncomingRecord { record }) => l.lock().push(RLog::IncomingRecord(record.value)),
                    Some(KademliaEvent::IncomingProvider { .. }) => l.lock().push(RLog::IncomingProvider),
                    Some(_) => {}
                },
            }
        }
    });
    (tx, log)
}

fn spawn_remote_rr_user(w: &mut World, node: usize, mut handle: RequestResponseHandle) -> Arc<Mutex<Vec<RLog>>> {
    let log = Arc::new(Mutex::new(Vec::new()));
    let l = log.clone();
    w.spawn_for(node, "silent-user", async move {
        // requests are never answered; the ids are kept so that nothing is dropped/rejected either
        let mut kept = Vec::new();
        while let Some(ev) = handle.next().await {
            if let RequestResponseEvent::RequestReceived { request_id, request, .. } = ev {
                l.lock().push(RLog::RawRequest(request.len()));
                kept.push(request_id);
            }
        }
    });
    log
}

fn contains(hay: &[u8], needle: &[u8]) -> bool {
    !needle.is_empty() && hay.windows(needle.len()).any(|w| w == needle)
}

impl KadScenario {
    /// lazy program: the operations, then the kills
    fn program_len(&self) -> usize {
        self.ops().len() + self.kills.len() + usize::from(self.cut_between)
    }

    /// number of remotes on whose link L put the published data (record value / provider record)
    fn sent_to(&self, st: &St, w: &World) -> BTreeSet<usize> {
        let marker: Vec<u8> = match self.ops().iter().find(|(o, _)| o.sends_data()).map(|(o, _)| *o) {
            Some(OpKind::StartProviding) => st.l_peer.to_bytes(),
            _ => VALUE.to_vec(),
        };
        let mut out = BTreeSet::new();
        for link in &w.links {
            let (remote, bytes) = if link.a == 0 {
                (link.b, link.a_to_b.log())
            } else if link.b == 0 {
                (link.a, link.b_to_a.log())
            } else {
                continue;
            };
            if contains(&bytes, &marker) {
                if let Some(slot) = st.r_node.iter().position(|n| *n == Some(remote)) {
                    out.insert(slot);
                }
            }
        }
        out
    }
}

impl Scenario for KadScenario {
    type State = St;

    fn name(&self) -> String {
        format!("kad[{}]", serde_json::to_string(self).unwrap())
    }

    fn config(&self) -> Value {
        serde_json::to_value(self).unwrap()
    }

    fn setup(&self, w: &mut World) -> St {
        let keep_alive = Duration::from_secs(3600);
        let kad = || KadConfigBuilder::new().with_replication_factor(REPLICATION).build();
        // node 0 = L
        let (cfg_l, handle_l) = match self.provider_keys_limit {
            Some(n) => KadConfigBuilder::new().with_replication_factor(REPLICATION).with_max_provider_keys(n).build(),
            None => kad(),
        };
        let mut builder = ConfigBuilder::new().with_libp2p_kademlia(cfg_l).with_keep_alive_timeout(keep_alive);
        if let Some(n) = self.out_limit {
            builder = builder.with_connection_limits(ConnectionLimitsConfig::default().max_outgoing_connections(Some(n)));
        }
        let l = w.add_node(160, builder).expect("node L");
        assert_eq!(l, 0);
        let l_peer = w.nodes[l].peer;
        let (l_cmd, l_log) = spawn_local_user(w, l, handle_l);

        let mut r_node = [None; 3];
        let mut r_peer = [l_peer; 3];
        let mut r_addr: Vec<Vec<Multiaddr>> = vec![vec![]; 3];
        let mut r_cmd: Vec<Option<tokio::sync::mpsc::UnboundedSender<RCmd>>> = vec![None, None, None];
        let mut r_logs = Vec::new();
        for (i, fault) in self.faults.iter().enumerate() {
            let seed = 161 + i as u64;
            let mut log = Arc::new(Mutex::new(Vec::new()));
            match fault {
                Fault::Undialable => {
                    r_peer[i] = crate::util::peer(seed);
                    r_addr[i] = vec![format!("/ip4/10.1.9.{}/tcp/30333", i + 1).parse().unwrap()];
                }
                Fault::NoProto | Fault::Silent => {
                    let name = if *fault == Fault::Silent { KAD_PROTOCOL } else { "/verif/not-kademlia/1" };
                    let (cfg, handle) =
                        RrConfigBuilder::new(ProtocolName::from(name)).with_max_size(70 * 1024).with_timeout(Duration::from_secs(600)).build();
                    let n = w
                        .add_node(seed, ConfigBuilder::new().with_request_response_protocol(cfg).with_keep_alive_timeout(keep_alive))
                        .expect("remote node");
                    log = spawn_remote_rr_user(w, n, handle);
                    r_node[i] = Some(n);
                    r_peer[i] = w.nodes[n].peer;
                    r_addr[i] = vec![w.nodes[n].address.clone()];
                }
                _ => {
                    let (cfg, handle) = kad();
                    let n = w
                        .add_node(seed, ConfigBuilder::new().with_libp2p_kademlia(cfg).with_keep_alive_timeout(keep_alive))
                        .expect("remote node");
                    let (tx, lg) = spawn_remote_kad_user(w, n, handle);
                    log = lg;
                    r_cmd[i] = Some(tx);
                    r_node[i] = Some(n);
                    r_peer[i] = w.nodes[n].peer;
                    r_addr[i] = match fault {
                        Fault::NoAddrEmpty => vec![],
                        Fault::NoAddrUnsupported => vec![format!("/ip4/10.1.0.{}/udp/30333/quic-v1", n + 1).parse().unwrap()],
                        _ => vec![w.nodes[n].address.clone()],
                    };
                }
            }
            r_logs.push(log);
        }
        if self.local_copy {
            let _ = l_cmd.send(LCmd::Store);
        }
        // content held by the healthy remotes
        if self.seeded {
            for i in 0..3 {
                if self.faults[i] == Fault::Ok {
                    if let Some(tx) = &r_cmd[i] {
                        for (op, _) in self.ops() {
                            match op {
                                OpKind::GetRecord => drop(tx.send(RCmd::Store)),
                                OpKind::GetProviders => drop(tx.send(RCmd::Provide)),
                                _ => {}
                            }
                        }
                    }
                }
            }
            w.run_to_quiescence(100_000);
        }
        // who knows whom
        match self.topo {
            Topo::Star =>
                for i in 0..3 {
                    let _ = l_cmd.send(LCmd::AddKnown(r_peer[i], r_addr[i].clone()));
                },
            Topo::Chain => {
                let _ = l_cmd.send(LCmd::AddKnown(r_peer[0], r_addr[0].clone()));
                if let Some(tx) = &r_cmd[0] {
                    for i in 1..3 {
                        let _ = tx.send(RCmd::AddKnown(r_peer[i], r_addr[i].clone()));
                    }
                }
            }
        }
        w.run_to_quiescence(100_000);
        if self.preconnect {
            for i in 0..3 {
                if self.faults[i].connectable() && (self.topo == Topo::Star || i == 0) {
                    let n = r_node[i].unwrap();
                    let _ = w.nodes[l].cmd.send(NodeCmd::DialAddress(w.nodes[n].address.clone()));
                    w.run_to_quiescence(100_000);
                }
            }
        }
        for i in 0..3 {
            match self.faults[i] {
                Fault::Dead => w.kill_node(r_node[i].unwrap()),
                Fault::KadExited => {
                    // the node's only litep2p-spawned task is the Kademlia event loop
                    let n = r_node[i].unwrap();
                    let prefix = format!("n{n}:task");
                    for t in w.nodes[n].tasks.clone() {
                        if w.driver.name(t) == prefix {
                            w.driver.cancel(t);
                        }
                    }
                }
                _ => {}
            }
        }
        w.run_to_quiescence(100_000);
        St { l_cmd, l_log, _r_cmd: r_cmd, r_logs, r_node, r_peer, l_peer, pc: 0 }
    }

    fn lazy_count(&self, st: &St, _w: &World) -> usize {
        usize::from(st.pc < self.program_len())
    }

    fn lazy_apply(&self, st: &mut St, w: &mut World, _k: usize) {
        let ops = self.ops();
        // program: first operation, [cut of all of L's links], further operations, kills
        let cut_at = if self.cut_between { Some(1) } else { None };
        let shift = usize::from(self.cut_between && st.pc > 1);
        if Some(st.pc) == cut_at {
            for k in 0..w.links.len() {
                if w.links[k].a == 0 || w.links[k].b == 0 {
                    w.cut_link(k);
                }
            }
        } else if st.pc - shift < ops.len() {
            let idx = st.pc - shift;
            let (op, q) = ops[idx];
            let _ = st.l_cmd.send(LCmd::Run(idx, op, q, st.r_peer.to_vec()));
        } else if let Some(n) = st.r_node[self.kills[st.pc - shift - ops.len()]] {
            w.kill_node(n);
        }
        st.pc += 1;
    }

    fn time(&self) -> (u32, Duration) {
        (TICKS, Duration::from_secs(TICK_SECS))
    }

    fn finish(&self, st: &mut St, w: &mut World, quiescent: bool) -> Vec<Viol> {
        let mut v = Vec::new();
        if !quiescent {
            v.push(Viol::new(format!("kad/no-quiescence/{}", self.op.name()), "step cap hit: the system never became quiescent"));
            return v;
        }
        let log = st.l_log.lock().clone();
        if std::env::var("C16_DEBUG").is_ok() {
            for (i, n) in w.nodes.iter().enumerate() {
                eprintln!("node {i} {} alive={} log={:?}", n.peer, n.alive, n.log.lock());
                eprintln!("   calls={:?}", n.script.0.lock().calls);
            }
            for l in &w.links {
                eprintln!("link {}->{}: {} bytes / {} bytes", l.a, l.b, l.a_to_b.log().len(), l.b_to_a.log().len());
            }
            for t in &w.driver.tasks {
                eprintln!("task {} polls={} done={}", t.name, t.polls, t.done());
            }
        }
        let ops = self.ops();
        let started: BTreeMap<usize, usize> = log.iter().filter_map(|e| if let LLog::Started { idx, qid } = e { Some((*idx, *qid)) } else { None }).collect();
        if started.len() != ops.len() {
            v.push(Viol::new("machinery/operation-not-started", format!("user task started {} of {} operations: {log:?}", started.len(), ops.len())));
            return v;
        }
        let summary = self.fault_summary();
        let ctx = format!(
            "operations {ops:?}, faults {:?}, topology {:?}, preconnected {}, outgoing limit {:?}, kills {:?}, local copy {}; events seen by the user of L: {:?}",
            self.faults,
            self.topo,
            self.preconnect,
            self.out_limit,
            self.kills,
            self.local_copy,
            log.iter().filter_map(|e| if let LLog::Event { name, qid, detail } = e { Some(format!("{name}({qid:?}) {detail}")) } else { None }).collect::<Vec<_>>()
        );
        let publishing = ops.iter().filter(|(o, _)| o.sends_data()).count();
        for (idx, (opk, quorum)) in ops.iter().enumerate() {
            let op = opk.name();
            let qid = started[&idx];
            let terminals: Vec<&'static str> = log
                .iter()
                .filter_map(|e| match e {
                    LLog::Event { name, qid: Some(q), .. } if *q == qid && is_terminal(name) => Some(*name),
                    _ => None,
                })
                .collect();
            match terminals.len() {
                0 => v.push(Viol::new(
                    format!("kad/no-terminal-event/{op}/{summary}"),
                    format!("query {qid} ({op}) produced no terminal event although {} s of virtual time elapsed after quiescence (all substream/read/write timeouts are shorter): {ctx}", TICKS as u64 * TICK_SECS),
                )),
                1 => {}
                n => v.push(Viol::new(format!("kad/two-terminal-events/{op}"), format!("query {qid} ({op}) produced {n} terminal events {terminals:?}: {ctx}"))),
            }
            for t in &terminals {
                if *t != "QueryFailed" && *t != opk.success_event() {
                    v.push(Viol::new(format!("kad/wrong-terminal-kind/{op}"), format!("query {qid} ({op}) ended with {t}, expected {} or QueryFailed: {ctx}", opk.success_event())));
                }
            }
            // success of a publishing operation needs the quorum (checked when the published bytes identify the operation)
            if opk.sends_data() && publishing == 1 && terminals.contains(&opk.success_event()) {
                let sent = self.sent_to(st, w);
                let received: Vec<usize> = (0..3)
                    .filter(|i| st.r_logs[*i].lock().iter().any(|e| matches!(e, RLog::IncomingRecord(_) | RLog::IncomingProvider | RLog::RawRequest(_))))
                    .collect();
                // peers the user named that L's routing table can hold (put_record_to_peers); for the lookup based
                // operations the number of peers the lookup selected is not observable: `All` is checked as "at least one"
                let named = (0..3).filter(|i| self.faults[*i] != Fault::NoAddrEmpty).count();
                let (need, literal) = match (quorum, opk) {
                    (Q::One, _) => (1, 1),
                    (Q::N2, _) => (1, 2),
                    (Q::All, OpKind::PutRecordToPeers) if self.topo == Topo::Star => (named.max(1), named.max(1)),
                    (Q::All, _) => (1, 1),
                };
                // a remote killed by a lazy action may die between L handing the message to its (healthy) yamux stream
                // and the bytes reaching the wire: no implementation can tell, so such a remote counts as possibly sent to
                let mut sent = sent;
                for k in &self.kills {
                    sent.insert(*k);
                }
                // the same holds for a link cut by a lazy action (a deviation may place the cut inside the first operation)
                if self.cut_between {
                    sent.extend(0..3);
                }
                if sent.len() < need {
                    v.push(Viol::new(
                        format!("kad/success-without-quorum/{op}"),
                        format!(
                            "{} reported for query {qid} but the data was put on the wire towards (or possibly sent to a remote killed midway) {} remote(s) {sent:?} (remotes that saw a request: {received:?}), quorum {quorum:?} needs {need}: {ctx}",
                            opk.success_event(),
                            sent.len()
                        ),
                    ));
                } else if sent.len() < literal {
                    v.push(Viol::new(
                        format!("kad/success-without-quorum/{op}/quorum-n-clamped-to-reachable-peers"),
                        format!("{} reported for query {qid} with Quorum::N(2) although the data was sent to {} remote(s) {sent:?} only: {ctx}", opk.success_event(), sent.len()),
                    ));
                }
            }
        }
        // events carrying an id that was never issued
        for e in &log {
            if let LLog::Event { name, qid: Some(q), .. } = e {
                if !started.values().any(|s| s == q) {
                    v.push(Viol::new("kad/event-for-unknown-query", format!("{name} carries query id {q}, the issued ids are {:?}: {ctx}", started.values().collect::<Vec<_>>())));
                }
            }
        }
        v
    }

    fn trace_class(&self, st: &St, w: &World) -> String {
        let ev: Vec<String> = st
            .l_log
            .lock()
            .iter()
            .map(|e| match e {
                LLog::Started { idx, qid } => format!("S{idx}={qid}"),
                LLog::Event { name, qid, detail } => format!("{name}:{}:{detail}", qid.map(|q| q.to_string()).unwrap_or_default()),
            })
            .collect();
        let rx: Vec<usize> = st.r_logs.iter().map(|l| l.lock().len()).collect();
        let publishing = self.ops().iter().any(|(o, _)| o.sends_data());
        format!("{}|sent={:?}|rx={rx:?}", ev.join(","), if publishing { self.sent_to(st, w) } else { BTreeSet::new() })
    }
}

// ------------------------------------------------------------------------------------------------
// scenario grid
// ------------------------------------------------------------------------------------------------

const OPS: [OpKind; 6] =
    [OpKind::FindNode, OpKind::PutRecord, OpKind::PutRecordToPeers, OpKind::GetRecord, OpKind::StartProviding, OpKind::GetProviders];

fn quorums(op: OpKind) -> Vec<Q> {
    if op.has_quorum() {
        vec![Q::One, Q::N2, Q::All]
    } else {
        vec![Q::One]
    }
}

const SINGLE_FAULTS: [Fault; 7] =
    [Fault::NoAddrEmpty, Fault::NoAddrUnsupported, Fault::Undialable, Fault::Dead, Fault::NoProto, Fault::Silent, Fault::KadExited];

/// (scenario, deviation bound class: 0 = shallow, 1 = standard, 2 = deep)
pub fn scenarios(thorough: bool) -> Vec<(KadScenario, u8)> {
    let mut v: Vec<(KadScenario, u8)> = Vec::new();
    let ok = [Fault::Ok; 3];
    // 1. no fault
    for op in OPS {
        for q in quorums(op) {
            let deep = q == Q::One && matches!(op, OpKind::FindNode | OpKind::PutRecordToPeers | OpKind::GetRecord);
            v.push((KadScenario::base(op, q, ok), if deep { 2 } else { 1 }));
        }
    }
    for q in quorums(OpKind::GetRecord) {
        let mut s = KadScenario::base(OpKind::GetRecord, q, ok);
        s.local_copy = true;
        v.push((s, 1));
    }
    for op in [OpKind::GetRecord, OpKind::GetProviders] {
        let mut s = KadScenario::base(op, Q::One, ok);
        s.seeded = false;
        v.push((s, 1));
    }
    // 2. one faulty remote (slot 0), the others healthy
    for op in OPS {
        for f in SINGLE_FAULTS {
            for q in quorums(op) {
                if !thorough && q == Q::N2 {
                    continue;
                }
                let deep = q == Q::One && f == Fault::NoProto && matches!(op, OpKind::FindNode | OpKind::PutRecordToPeers);
                v.push((KadScenario::base(op, q, [f, Fault::Ok, Fault::Ok]), if deep { 2 } else { 1 }));
            }
        }
    }
    // 3. a healthy remote is killed at any point of the operation; with and without established connections
    for op in OPS {
        for q in quorums(op) {
            if !thorough && q == Q::N2 {
                continue;
            }
            for preconnect in [false, true] {
                if !thorough && preconnect && q != Q::One {
                    continue;
                }
                let mut s = KadScenario::base(op, q, ok);
                s.kills = vec![0];
                s.preconnect = preconnect;
                let deep = preconnect && q == Q::One && matches!(op, OpKind::FindNode | OpKind::PutRecordToPeers);
                v.push((s, if deep { 2 } else { 1 }));
            }
        }
    }
    // 4. every target faulty (publishing operations: the sending phase has nobody to talk to)
    for op in [OpKind::PutRecord, OpKind::PutRecordToPeers, OpKind::StartProviding, OpKind::FindNode, OpKind::GetRecord, OpKind::GetProviders] {
        for f in SINGLE_FAULTS {
            for q in quorums(op) {
                if !thorough && q != Q::One {
                    continue;
                }
                v.push((KadScenario::base(op, q, [f; 3]), 1));
            }
        }
    }
    {
        let mut s = KadScenario::base(OpKind::GetRecord, Q::One, [Fault::Dead; 3]);
        s.local_copy = true;
        v.push((s, 1));
    }
    // 5. connections exist before the operation (no dial needed) and one remote is faulty
    for op in OPS {
        for f in [Fault::NoProto, Fault::Silent, Fault::KadExited, Fault::Dead] {
            for q in quorums(op) {
                if !thorough && q != Q::All && op.has_quorum() {
                    continue;
                }
                let mut s = KadScenario::base(op, q, [f, Fault::Ok, Fault::Ok]);
                s.preconnect = true;
                v.push((s, 1));
            }
        }
    }
    // 6. peers learnt from another peer's reply
    for op in OPS {
        for f in [Fault::Ok, Fault::NoAddrUnsupported, Fault::Undialable, Fault::NoProto, Fault::Silent] {
            for q in quorums(op) {
                if !thorough && q != Q::All && op.has_quorum() {
                    continue;
                }
                if !thorough && !matches!(f, Fault::Ok | Fault::NoAddrUnsupported | Fault::NoProto) {
                    continue;
                }
                let mut s = KadScenario::base(op, q, [Fault::Ok, f, Fault::Ok]);
                s.topo = Topo::Chain;
                v.push((s, 1));
            }
        }
    }
    // 7. the local node is at its outgoing connection limit
    for op in OPS {
        for preconnect in [false, true] {
            if !thorough && !matches!(op, OpKind::FindNode | OpKind::PutRecordToPeers) {
                continue;
            }
            let mut s = KadScenario::base(op, Q::One, ok);
            s.out_limit = Some(1);
            s.preconnect = preconnect;
            v.push((s, if thorough { 1 } else { 0 }));
        }
    }
    // 8. two operations in flight
    let pairs: Vec<(OpKind, OpKind)> = if thorough {
        OPS.iter().flat_map(|a| OPS.iter().map(move |b| (*a, *b))).collect()
    } else {
        vec![
            (OpKind::FindNode, OpKind::PutRecordToPeers),
            (OpKind::PutRecord, OpKind::GetRecord),
            (OpKind::StartProviding, OpKind::GetProviders),
            (OpKind::GetProviders, OpKind::FindNode),
            (OpKind::PutRecordToPeers, OpKind::FindNode),
        ]
    };
    for (a, b) in pairs {
        for (faults, kills) in [(ok, vec![]), ([Fault::Dead, Fault::Ok, Fault::Ok], vec![]), ([Fault::Silent, Fault::Ok, Fault::Ok], vec![]), (ok, vec![0])] {
            if !thorough && faults[0] == Fault::Silent {
                continue;
            }
            let mut s = KadScenario::base(a, Q::One, faults);
            s.extra_op = Some(b);
            s.kills = kills;
            v.push((s, 1));
        }
    }
    // 8b. the local provider store is full: a second announcement (another key) is refused by the store; it still has to
    // end with exactly one terminal event
    for faults in [ok, [Fault::Dead, Fault::Ok, Fault::Ok]] {
        let mut s = KadScenario::base(OpKind::StartProviding, Q::One, faults);
        s.extra_op = Some(OpKind::StartProviding);
        s.provider_keys_limit = Some(1);
        v.push((s, 1));
    }
    // 8c. a second operation after every connection of L was lost: Kademlia has to dial peers it already talked to
    for (a, b) in [(OpKind::FindNode, OpKind::FindNode), (OpKind::GetRecord, OpKind::PutRecord), (OpKind::PutRecord, OpKind::GetProviders), (OpKind::StartProviding, OpKind::GetRecord)] {
        for faults in [ok, [Fault::Dead, Fault::Ok, Fault::Ok]] {
            for topo in [Topo::Star, Topo::Chain] {
                let mut s = KadScenario::base(a, Q::One, faults);
                s.topo = topo;
                s.extra_op = Some(b);
                s.cut_between = true;
                v.push((s, 1));
            }
        }
    }
    if thorough {
        // 9. all fault assignments from {ok, no-address, undialable, dead}^3
        let set = [Fault::Ok, Fault::NoAddrUnsupported, Fault::Undialable, Fault::Dead];
        for op in OPS {
            for a in set {
                for b in set {
                    for c in set {
                        let faults = [a, b, c];
                        let n_faulty = faults.iter().filter(|f| **f != Fault::Ok).count();
                        if n_faulty < 2 && a != Fault::Ok || n_faulty == 0 {
                            continue; // covered above
                        }
                        if n_faulty == 3 && a == b && b == c {
                            continue;
                        }
                        for q in quorums(op) {
                            v.push((KadScenario::base(op, q, faults), 1));
                        }
                    }
                }
            }
        }
        // 10. two kills anywhere; kill + silent / no-protocol mixes
        for op in OPS {
            for q in quorums(op) {
                let mut s = KadScenario::base(op, q, ok);
                s.kills = vec![0, 1];
                v.push((s, 1));
                for f in [Fault::Silent, Fault::NoProto] {
                    let mut s = KadScenario::base(op, q, [Fault::Ok, f, Fault::Ok]);
                    s.kills = vec![0];
                    v.push((s, 1));
                }
            }
        }
    }
    v
}

/// Back-pressure on the user's event channel: a node that knows nobody starts `capacity + 5` lookups (each fails at once)
/// while its user does not read the handle; the user then drains it. Every query id must get exactly one terminal event
/// — the protocol has to wait for room rather than drop a report.
fn failures_reach_a_user_that_does_not_read(ctx: &mut Ctx) {
    let result = std::thread::spawn(|| -> Result<(usize, usize), Viol> {
        let rt = crate::env::driver::runtime(16);
        let _g = rt.enter();
        let mut w = World::new();
        let (cfg, mut handle) = KadConfigBuilder::new().with_replication_factor(REPLICATION).build();
        let l = w
            .add_node(160, litep2p::config::ConfigBuilder::new().with_libp2p_kademlia(cfg).with_keep_alive_timeout(Duration::from_secs(3600)))
            .map_err(|e| Viol::new("machinery/clogged-kademlia-user", e))?;
        w.run_to_quiescence(100_000);
        let capacity = litep2p::verif::DEFAULT_CHANNEL_SIZE;
        let total = capacity + 5;
        let started: Arc<Mutex<Vec<usize>>> = Default::default();
        let events: Arc<Mutex<Vec<(usize, &'static str)>>> = Default::default();
        let (go_tx, mut go_rx) = tokio::sync::mpsc::unbounded_channel::<()>();
        let (st2, ev2) = (started.clone(), events.clone());
        w.spawn_for(l, "kad-user", async move {
            for i in 0..total {
                let qid = match i % 3 {
                    0 => handle.find_node(crate::util::peer(990 + i as u64)).await,
                    1 => handle.get_record(RecordKey::from(KEY.to_vec()), Quorum::One).await,
                    _ => handle.get_providers(RecordKey::from(KEY.to_vec())).await,
                };
                st2.lock().push(qid.0);
            }
            // busy elsewhere until told to read
            let _ = go_rx.recv().await;
            while let Some(ev) = handle.next().await {
                if let LLog::Event { name, qid: Some(q), .. } = event_entry(&ev) {
                    if is_terminal(name) {
                        ev2.lock().push((q, name));
                    }
                }
            }
        });
        w.run_to_quiescence(5_000_000);
        if started.lock().len() != total {
            return Err(Viol::new("machinery/clogged-kademlia-user", format!("{} of {total} operations were started", started.lock().len())));
        }
        let _ = go_tx.send(());
        w.run_to_quiescence(5_000_000);
        let ev = events.lock().clone();
        let mut missing = 0usize;
        let mut twice = 0usize;
        for q in started.lock().iter() {
            match ev.iter().filter(|(x, _)| x == q).count() {
                0 => missing += 1,
                1 => {}
                _ => twice += 1,
            }
        }
        if twice > 0 {
            return Err(Viol::new("kad/two-terminal-events/event-channel-full", format!("{twice} of {total} operations got more than one terminal event")));
        }
        if missing > 0 {
            return Err(Viol::new(
                "kad/no-terminal-event/event-channel-full",
                format!("{missing} of {total} operations never got a terminal event: they were decided while the user's event channel held {capacity} unread events"),
            ));
        }
        Ok((total, w.driver.steps as usize))
    })
    .join();
    match result {
        Ok(Ok((n, steps))) => ctx.sub("failures_reach_a_user_that_does_not_read", serde_json::json!({"operations": n, "driver_steps": steps, "held": true})),
        Ok(Err(v)) if v.signature.starts_with("machinery/") => ctx.machinery_error(format!("{}: {}", v.signature, v.what)),
        Ok(Err(v)) => ctx.violation(crate::report::Violation { signature: v.signature, what: v.what, replay: serde_json::json!({"engine": "scripted", "scenario": "failures_reach_a_user_that_does_not_read"}) }),
        Err(_) => ctx.machinery_error("clogged Kademlia user scenario panicked"),
    }
}

pub fn run(ctx: &mut Ctx) {
    failures_reach_a_user_that_does_not_read(ctx);
    let thorough = ctx.tier == crate::report::Tier::Thorough;
    let scns = scenarios(thorough);
    ctx.cov("programs", scns.len() as u64);
    // single-cause hang classes already reported per operation: a multi-fault scenario that hangs is attributed to the
    // first of its causes that hangs alone
    let mut single_hangs: BTreeSet<(String, String)> = BTreeSet::new();
    let mut by_bound: BTreeMap<usize, u64> = BTreeMap::new();
    let mut max_bound = 0usize;
    for (s, class) in &scns {
        // quick: FIFO schedule only for class 0, every single deviation otherwise; thorough: one more deviation for the
        // deep class
        let bound = match (*class, thorough) {
            (0, _) => 0,
            (2, true) => 2,
            _ => 1,
        };
        max_bound = max_bound.max(bound);
        *by_bound.entry(bound).or_default() += 1;
        let e2 = E2 { bound, max_executions: 3_000_000, ..Default::default() };
        let mut out = e2.explore(s);
        let classes = s.fault_classes();
        for viol in out.violations.iter_mut() {
            // kad/no-terminal-event/<op>/<fault summary>
            let parts: Vec<String> = viol.signature.splitn(4, '/').map(str::to_string).collect();
            if parts.len() == 4 && parts[1] == "no-terminal-event" {
                let op = parts[2].clone();
                if classes.len() <= 1 {
                    single_hangs.insert((op, parts[3].clone()));
                } else if let Some(c) = classes.iter().find(|c| single_hangs.contains(&(op.clone(), (*c).clone()))) {
                    viol.signature = format!("kad/no-terminal-event/{op}/{c}");
                }
            }
        }
        e2::absorb(ctx, &s.name(), out);
    }
    ctx.cov("deviation_bound", max_bound as u64);
    ctx.cov("programs_per_deviation_bound", serde_json::to_value(by_bound.iter().map(|(k, v)| (k.to_string(), *v)).collect::<BTreeMap<_, _>>()).unwrap());
    ctx.cov(
        "rule",
        "for every operation x quorum x fault assignment over three remote slots (healthy, empty address list, address of a transport that is not \
         run, undialable, dead, no Kademlia protocol, silent, Kademlia loop exited) x topology (all peers told / learnt from a reply) x \
         pre-established connections x local outgoing-connection limit x remote killed by a lazy action x second concurrent operation x local copy of the record: E2 runs the FIFO schedule of all tasks \
         of four real Litep2p nodes on SimNet and every schedule with up to the stated number of deviations (another enabled task, or the kill \
         issued early), each to quiescence, then 40 idle clock ticks of 1 s; oracle on the user log of L and on the bytes L wrote to each link; \
         states = distinct observable trace classes",
    );
    ctx.assume("SimNet's connection task mirrors transport/tcp/connection.rs over real yamux + multistream-select + ProtocolSet; Noise/TCP below yamux is replaced by an in-memory pipe (DESIGN §2.3)");
    ctx.assume("interleaving granularity is one poll of one task; tokio::select! branch order inside a poll is fixed by the runtime seed");
    ctx.assume("Kademlia uses tokio timers only (executor READ/WRITE_TIMEOUT 15 s, store refresh sleep 22 h): all are driven by the virtual clock; no futures_timer timer is involved. FindNodeContext's 10 s peer_timeout reads std::time::Instant (offset clock, not advanced here): it only changes how many requests run in parallel and cannot matter with 3 peers and parallelism 3");
    ctx.assume("keep-alive timeout 3600 s > 120 s of ticks: an idle connection is never closed by the keep-alive timer inside an execution, so a query that would only be ended by the connection being closed for idleness is reported as not terminating (another protocol may hold a connection open indefinitely)");
    ctx.assume("'was sent the data' is decided on the wire: the record value (PUT_VALUE) or the provider's peer id (ADD_PROVIDER) appears in the bytes L wrote to the link towards that remote; Quorum::All of the lookup based operations is checked as 'at least one' because the set of peers the lookup selected is not observable");
    ctx.assume("silent peer = a node that negotiates /ipfs/kad/1.0.0 and reads requests but never answers (request-response protocol registered under the Kademlia name, user never responds)");
}

pub fn replay(case: &Value) -> Result<String, String> {
    let s: KadScenario = serde_json::from_value(case["config"].clone()).map_err(|e| e.to_string())?;
    install_trace();
    e2::replay(&s, case)
}

// ------------------------------------------------------------------------------------------------
// debugging aid: `C16_TRACE=<target substring>` prints litep2p's tracing events during `verif replay`
// ------------------------------------------------------------------------------------------------

struct PrintSubscriber {
    filter: String,
}

struct FieldPrinter(String);

impl tracing::field::Visit for FieldPrinter {
    fn record_debug(&mut self, field: &tracing::field::Field, value: &dyn std::fmt::Debug) {
        use std::fmt::Write;
        let _ = write!(self.0, " {}={:?}", field.name(), value);
    }
}

impl tracing::Subscriber for PrintSubscriber {
    fn enabled(&self, metadata: &tracing::Metadata<'_>) -> bool {
        metadata.target().contains(&self.filter)
    }
    fn new_span(&self, _span: &tracing::span::Attributes<'_>) -> tracing::span::Id {
        tracing::span::Id::from_u64(1)
    }
    fn record(&self, _span: &tracing::span::Id, _values: &tracing::span::Record<'_>) {}
    fn record_follows_from(&self, _span: &tracing::span::Id, _follows: &tracing::span::Id) {}
    fn event(&self, event: &tracing::Event<'_>) {
        let mut p = FieldPrinter(String::new());
        event.record(&mut p);
        eprintln!("[{} {}]{}", event.metadata().level(), event.metadata().target(), p.0);
    }
    fn enter(&self, _span: &tracing::span::Id) {}
    fn exit(&self, _span: &tracing::span::Id) {}
}

fn install_trace() {
    if let Ok(filter) = std::env::var("C16_TRACE") {
        let _ = tracing::subscriber::set_global_default(PrintSubscriber { filter });
    }
}
