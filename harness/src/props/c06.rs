//! C06 — connection caps (oracles `c06/*` of the manager model).
use crate::report::Ctx;

pub fn run(ctx: &mut Ctx) {
    super::manager::run_filtered(ctx, "c06");
}
