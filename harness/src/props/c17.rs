//! C17 — the DHT record and provider store respects its bounds and freshness rules.
//!
//! E1 explicit-state exploration of the real `MemoryStore`: all operation histories up to a depth bound,
//! for every configuration in a grid, with a transition-relation oracle (`allowed(pre, op, post, result)`)
//! written directly from the property statement. Records and providers are independent halves of the store
//! (they share only the configuration), so they are explored by two models.

use crate::{
    mc::e1::{self, Explorer, Model, Step, Viol},
    report::Ctx,
    util,
};
use litep2p::{
    protocol::libp2p::kademlia::{
        verif::{MemoryStore, MemoryStoreConfig},
        ContentProvider, Quorum, Record, RecordKey,
    },
    PeerId,
};
use multiaddr::Multiaddr;
use serde::{Deserialize, Serialize};
use serde_json::{json, Value};
use std::{
    collections::BTreeMap,
    time::{Duration, Instant},
};

const HOUR: Duration = Duration::from_secs(3600);

fn rkey(i: u8) -> RecordKey {
    RecordKey::from(vec![b'k', i])
}

fn key_index(k: &RecordKey) -> u8 {
    k.to_vec()[1]
}

// ------------------------------------------------------------------------------------------------
// records
// ------------------------------------------------------------------------------------------------

#[derive(Clone, Copy, Debug, Serialize, Deserialize, PartialEq, Eq, PartialOrd, Ord)]
pub enum Exp {
    Never,
    Past,
    In1h,
    In2h,
}

#[derive(Clone, Debug, Serialize, Deserialize)]
pub enum RecOp {
    Put { key: u8, size: usize, variant: u8, exp: Exp },
    Get { key: u8 },
}

#[derive(Clone, Debug, PartialEq, Eq)]
struct RRec {
    size: usize,
    variant: u8,
    exp: Exp,
}

impl RRec {
    fn expired(&self) -> bool {
        self.exp == Exp::Past
    }
}

pub struct RecModel {
    max_records: usize,
    max_size: usize,
    keys: u8,
}

pub struct RecSys {
    store: MemoryStore,
    base: Instant,
    /// dump after the previous step (ground truth for the relation)
    pre: BTreeMap<u8, RRec>,
}

impl RecModel {
    fn instant(&self, base: Instant, e: Exp) -> Option<Instant> {
        match e {
            Exp::Never => None,
            Exp::Past => Some(base),
            Exp::In1h => Some(base + HOUR),
            Exp::In2h => Some(base + 2 * HOUR),
        }
    }

    fn classify(&self, base: Instant, e: Option<Instant>) -> Result<Exp, Viol> {
        match e {
            None => Ok(Exp::Never),
            Some(t) if t == base => Ok(Exp::Past),
            Some(t) if t == base + HOUR => Ok(Exp::In1h),
            Some(t) if t == base + 2 * HOUR => Ok(Exp::In2h),
            Some(_) => Err(Viol::new(
                "records/invented-expiry",
                "store holds a record whose expiry was never supplied",
            )),
        }
    }

    fn decode(&self, base: Instant, r: &Record) -> Result<(u8, RRec), Viol> {
        let variant = r.value.first().copied().unwrap_or(0);
        if r.value.iter().any(|b| *b != variant) {
            return Err(Viol::new("records/corrupt-value", "stored value bytes were altered"));
        }
        Ok((
            key_index(&r.key),
            RRec { size: r.value.len(), variant, exp: self.classify(base, r.expires)? },
        ))
    }

    fn dump(&self, sys: &RecSys) -> Result<BTreeMap<u8, RRec>, Viol> {
        let (records, _, _) = sys.store.verif_dump();
        let mut out = BTreeMap::new();
        for r in &records {
            let (k, v) = self.decode(sys.base, r)?;
            if out.insert(k, v).is_some() {
                return Err(Viol::new("records/duplicate-key", "two records under one key"));
            }
        }
        Ok(out)
    }

    fn sizes(&self) -> Vec<usize> {
        let m = self.max_size;
        let mut v = vec![0, m.saturating_sub(1), m, m + 1];
        v.sort();
        v.dedup();
        v
    }
}

/// everything except `key`: unchanged, or an expired entry vanished
fn others_unchanged(pre: &BTreeMap<u8, RRec>, post: &BTreeMap<u8, RRec>, key: Option<u8>) -> Result<(), Viol> {
    for (k, v) in pre {
        if Some(*k) == key {
            continue;
        }
        match post.get(k) {
            Some(w) if w == v => {}
            None if v.expired() => {}
            other => {
                return Err(Viol::new(
                    "records/unrelated-key-changed",
                    format!("record under key {k} changed from {v:?} to {other:?} by an operation on another key"),
                ))
            }
        }
    }
    for k in post.keys() {
        if Some(*k) != key && !pre.contains_key(k) {
            return Err(Viol::new("records/unrelated-key-appeared", format!("key {k} appeared")));
        }
    }
    Ok(())
}

impl Model for RecModel {
    type Sys = RecSys;
    type Action = RecOp;

    fn name(&self) -> String {
        "c17-records".into()
    }

    fn config(&self) -> Value {
        json!({"max_records": self.max_records, "max_record_size_bytes": self.max_size, "keys": self.keys})
    }

    fn init(&self) -> RecSys {
        let config = MemoryStoreConfig {
            max_records: self.max_records,
            max_record_size_bytes: self.max_size,
            ..Default::default()
        };
        RecSys {
            store: MemoryStore::with_config(util::peer(1), config),
            base: Instant::now(),
            pre: BTreeMap::new(),
        }
    }

    fn enabled(&self, _sys: &RecSys) -> Vec<RecOp> {
        let mut v = Vec::new();
        for key in 0..self.keys {
            v.push(RecOp::Get { key });
        }
        for key in 0..self.keys {
            for size in self.sizes() {
                let variants: &[u8] = if size == 0 { &[0] } else { &[0xa1, 0xb2] };
                for &variant in variants {
                    for exp in [Exp::Never, Exp::Past, Exp::In1h, Exp::In2h] {
                        v.push(RecOp::Put { key, size, variant, exp });
                    }
                }
            }
        }
        v
    }

    fn apply(&self, sys: &mut RecSys, a: &RecOp) -> Result<Step, Viol> {
        let pre = sys.pre.clone();
        match *a {
            RecOp::Put { key, size, variant, exp } => {
                let new = RRec { size, variant, exp };
                let record = Record {
                    key: rkey(key),
                    value: vec![variant; size],
                    publisher: None,
                    expires: self.instant(sys.base, exp),
                };
                sys.store.put(record);
                let post = self.dump(sys)?;
                others_unchanged(&pre, &post, Some(key))?;
                let before = pre.get(&key);
                let after = post.get(&key);
                // the slot holds the old record, the new record, or (if the old one was expired) nothing
                let stored = match (before, after) {
                    (_, Some(x)) if *x == new => true,
                    (Some(b), Some(x)) if x == b => false,
                    (None, None) => false,
                    (Some(b), None) if b.expired() => false,
                    _ => {
                        return Err(Viol::new(
                            "records/put-wrote-something-else",
                            format!("put({new:?}) on {before:?} left {after:?}"),
                        ))
                    }
                };
                // bounds
                if post.len() > self.max_records {
                    return Err(Viol::new(
                        "records/max-records-exceeded",
                        format!("{} records held, max_records={}", post.len(), self.max_records),
                    ));
                }
                for (k, r) in &post {
                    if r.size > self.max_size {
                        return Err(Viol::new(
                            "records/max-size-exceeded",
                            format!("record {k} has {} bytes, max_record_size_bytes={}", r.size, self.max_size),
                        ));
                    }
                }
                // freshness: a stored record with an expiry is never replaced by an earlier-expiring one
                if let Some(b) = before {
                    if b.exp != Exp::Never && new.exp != Exp::Never && new.exp < b.exp && *b != new && stored {
                        return Err(Viol::new(
                            "records/replaced-by-earlier-expiry",
                            format!("stored {b:?} was replaced by earlier-expiring {new:?}"),
                        ));
                    }
                }
                // what must be stored (weak reading; everything else is a don't-care)
                let live = pre.values().filter(|r| !r.expired()).count();
                let must_store = size < self.max_size
                    && match before {
                        None => pre.len() < self.max_records,
                        Some(b) => b.exp != Exp::Never && new.exp != Exp::Never && new.exp > b.exp,
                    };
                let must_not_store = size > self.max_size || (before.is_none() && live >= self.max_records);
                if must_store && !stored {
                    return Err(Viol::new(
                        "records/acceptable-put-dropped",
                        format!("put({new:?}) with room in the store (pre={pre:?}) was not stored"),
                    ));
                }
                if must_not_store && stored {
                    return Err(Viol::new(
                        "records/unacceptable-put-stored",
                        format!("put({new:?}) was stored although it exceeds a bound (pre={pre:?})"),
                    ));
                }
                sys.pre = post;
            }
            RecOp::Get { key } => {
                let got = match sys.store.get(&rkey(key)) {
                    Some(r) => Some(r.clone()),
                    None => None,
                };
                let got = match got {
                    Some(r) => Some(self.decode(sys.base, &r)?.1),
                    None => None,
                };
                let post = self.dump(sys)?;
                others_unchanged(&pre, &post, Some(key))?;
                match (pre.get(&key), &got) {
                    (Some(b), Some(g)) if b == g && !b.expired() => {}
                    (Some(b), None) if b.expired() => {}
                    (None, None) => {}
                    (b, g) => {
                        let sig = if g.as_ref().is_some_and(|g| g.expired()) {
                            "records/get-returned-expired"
                        } else {
                            "records/get-disagrees-with-contents"
                        };
                        return Err(Viol::new(sig, format!("get({key}) returned {g:?}, store held {b:?}")));
                    }
                }
                match (pre.get(&key), post.get(&key)) {
                    (Some(b), Some(a)) if a == b => {}
                    (Some(b), None) if b.expired() => {}
                    (None, None) => {}
                    (b, a) => {
                        return Err(Viol::new(
                            "records/get-mutated-store",
                            format!("get({key}) changed the slot from {b:?} to {a:?}"),
                        ))
                    }
                }
                sys.pre = post;
            }
        }
        Ok(Step::Ok)
    }

    fn canon(&self, sys: &RecSys) -> Vec<u8> {
        format!("{:?}", sys.pre).into_bytes()
    }
}

// ------------------------------------------------------------------------------------------------
// providers
// ------------------------------------------------------------------------------------------------

#[derive(Clone, Debug, Serialize, Deserialize)]
pub enum ProvOp {
    /// advance the (offset) clock by 40 minutes: with a 1 h TTL, providers announced two steps ago expire while
    /// later ones stay (mixed expiry inside one key)
    Clock,
    GetProviders { key: u8 },
    PutProvider { key: u8, peer: u8, n_addr: usize },
    PutLocal { key: u8 },
    RemoveLocal { key: u8 },
}

#[derive(Clone, Debug, PartialEq, Eq)]
struct RProv {
    peer: u8,
    addrs: Vec<Multiaddr>,
    expired: bool,
    /// remaining lifetime in units of 10 minutes (rounded): part of the state, it decides what the next clock step does
    left: u16,
}

type ProvDump = (BTreeMap<u8, Vec<RProv>>, Vec<u8>);

pub struct ProvModel {
    max_keys: usize,
    max_per_key: usize,
    max_addrs: usize,
    ttl_zero: bool,
    keys: u8,
    peers: u8,
}

pub struct ProvSys {
    store: MemoryStore,
    pre: ProvDump,
    observations: u32,
    clock_steps: u8,
}

const LOCAL: u8 = 0;

fn ppeer(i: u8) -> PeerId {
    util::peer(100 + i as u64)
}

fn addr(peer: u8, i: usize) -> Multiaddr {
    format!("/ip4/10.0.{}.{}/tcp/30333", peer, i + 1).parse().unwrap()
}

fn prov_distance(peer: u8, key: u8) -> [u8; 32] {
    util::xor32(&util::sha256(&ppeer(peer).to_bytes()), &util::sha256(&rkey(key).to_vec()))
}

impl ProvModel {
    fn peer_index(&self, p: &PeerId) -> Result<u8, Viol> {
        (0..=self.peers)
            .find(|i| ppeer(*i) == *p)
            .ok_or_else(|| Viol::new("providers/invented-provider", "store holds a provider never supplied"))
    }

    fn dump(&self, sys: &ProvSys) -> Result<ProvDump, Viol> {
        let (_, provs, locals) = sys.store.verif_dump();
        let now = litep2p::verif::clock::now();
        let mut map = BTreeMap::new();
        for (k, list) in provs {
            let mut out = Vec::new();
            for p in list {
                if p.key != k {
                    return Err(Viol::new("providers/wrong-key", "provider record filed under another key"));
                }
                out.push(RProv {
                    peer: self.peer_index(&p.provider)?,
                    addrs: p.addresses.clone(),
                    expired: p.is_expired(now),
                    left: ((p.expires.saturating_duration_since(now).as_secs() + 300) / 600) as u16,
                });
            }
            map.insert(key_index(&k), out);
        }
        let mut locals: Vec<u8> = locals.iter().map(key_index).collect();
        locals.sort();
        Ok((map, locals))
    }

    /// bounds + ordering invariants of a dump
    fn invariants(&self, d: &ProvDump) -> Result<(), Viol> {
        if d.0.len() > self.max_keys {
            return Err(Viol::new(
                "providers/max-provider-keys-exceeded",
                format!("{} provider keys, max_provider_keys={}", d.0.len(), self.max_keys),
            ));
        }
        for (k, list) in &d.0 {
            if list.is_empty() {
                return Err(Viol::new("providers/empty-key-kept", format!("key {k} kept with no providers")));
            }
            if list.len() > self.max_per_key {
                return Err(Viol::new(
                    "providers/max-providers-per-key-exceeded",
                    format!("key {k} has {} providers, max_providers_per_key={}", list.len(), self.max_per_key),
                ));
            }
            for p in list {
                if p.addrs.len() > self.max_addrs {
                    return Err(Viol::new(
                        "providers/max-addresses-exceeded",
                        format!("provider {} of key {k} has {} addresses, max={}", p.peer, p.addrs.len(), self.max_addrs),
                    ));
                }
            }
            for w in list.windows(2) {
                if prov_distance(w[0].peer, *k) >= prov_distance(w[1].peer, *k) {
                    return Err(Viol::new(
                        "providers/not-sorted-by-distance",
                        format!("providers of key {k} not strictly sorted by distance: {:?}", list),
                    ));
                }
            }
        }
        Ok(())
    }

    fn others_unchanged(&self, pre: &ProvDump, post: &ProvDump, key: u8) -> Result<(), Viol> {
        for (k, v) in &pre.0 {
            if *k == key {
                continue;
            }
            match post.0.get(k) {
                Some(w) if w == v => {}
                // expired providers may be purged
                Some(w) if w.iter().all(|p| v.contains(p)) && v.iter().all(|p| p.expired || w.contains(p)) => {}
                None if v.iter().all(|p| p.expired) => {}
                other => {
                    return Err(Viol::new(
                        "providers/unrelated-key-changed",
                        format!("providers of key {k} changed from {v:?} to {other:?} by an operation on key {key}"),
                    ))
                }
            }
        }
        for k in post.0.keys() {
            if *k != key && !pre.0.contains_key(k) {
                return Err(Viol::new("providers/unrelated-key-appeared", format!("key {k} appeared")));
            }
        }
        Ok(())
    }

    /// relation for adding provider `peer` (with `addrs` already truncated) under `key`; returns whether it
    /// is present afterwards
    fn check_put(
        &self,
        pre: &ProvDump,
        post: &ProvDump,
        key: u8,
        peer: u8,
        addrs: &[Multiaddr],
        result: bool,
    ) -> Result<(), Viol> {
        self.invariants(post)?;
        self.others_unchanged(pre, post, key)?;
        let empty = Vec::new();
        let before = pre.0.get(&key).unwrap_or(&empty);
        let after = post.0.get(&key).unwrap_or(&empty);
        let present = after.iter().find(|p| p.peer == peer);
        if result != present.is_some() {
            return Err(Viol::new(
                "providers/put-result-disagrees",
                format!("put_provider returned {result} but provider present afterwards = {}", present.is_some()),
            ));
        }
        if let Some(p) = present {
            if p.addrs != addrs {
                return Err(Viol::new(
                    "providers/not-updated-in-place",
                    format!("provider {peer} of key {key} holds {:?}, announced (truncated) {:?}", p.addrs, addrs),
                ));
            }
        }
        // nothing invented, everything else is an old entry
        for p in after {
            if p.peer != peer && !before.contains(p) {
                return Err(Viol::new(
                    "providers/other-provider-changed",
                    format!("provider {:?} of key {key} was not there before ({before:?})", p),
                ));
            }
        }
        let was_present = before.iter().any(|p| p.peer == peer);
        if was_present {
            // re-announcement: updated in place, membership unchanged (expired ones may be purged)
            if !result {
                return Err(Viol::new(
                    "providers/reannouncement-dropped",
                    format!("re-announcement of provider {peer} for key {key} removed it"),
                ));
            }
            for p in before {
                if p.peer != peer && !p.expired && !after.contains(p) {
                    return Err(Viol::new(
                        "providers/reannouncement-displaced-other",
                        format!("re-announcement of {peer} displaced live provider {p:?}"),
                    ));
                }
            }
            return Ok(());
        }
        // new provider for this key
        let key_known = pre.0.contains_key(&key);
        if !key_known {
            let live_keys = pre.0.values().filter(|l| l.iter().any(|p| !p.expired)).count();
            let must = pre.0.len() < self.max_keys && !self.ttl_zero;
            let must_not = live_keys >= self.max_keys;
            if must && !result {
                return Err(Viol::new(
                    "providers/acceptable-provider-dropped",
                    format!("first provider for key {key} dropped with {} of {} keys used", pre.0.len(), self.max_keys),
                ));
            }
            if must_not && result {
                return Err(Viol::new(
                    "providers/key-bound-ignored",
                    format!("provider for new key {key} stored with {live_keys} live keys, max {}", self.max_keys),
                ));
            }
            return Ok(());
        }
        // key known: post must be the closest `max_per_key` of S ∪ {new} for some S with live ⊆ S ⊆ before
        let mut ok = false;
        let n = before.len();
        for mask in 0..(1u32 << n) {
            let mut s: Vec<u8> = Vec::new();
            let mut valid = true;
            for (i, p) in before.iter().enumerate() {
                if mask & (1 << i) != 0 {
                    s.push(p.peer);
                } else if !p.expired {
                    valid = false;
                }
            }
            if !valid {
                continue;
            }
            s.push(peer);
            s.sort_by_key(|q| prov_distance(*q, key));
            s.truncate(self.max_per_key);
            let got: Vec<u8> = after.iter().map(|p| p.peer).collect();
            if got == s {
                ok = true;
                break;
            }
        }
        if !ok && !(self.ttl_zero && !result && after == before) {
            return Err(Viol::new(
                "providers/closest-not-retained",
                format!(
                    "after announcing {peer} for key {key}: {:?}; before: {:?}; max_providers_per_key={}",
                    after.iter().map(|p| p.peer).collect::<Vec<_>>(),
                    before,
                    self.max_per_key
                ),
            ));
        }
        Ok(())
    }
}

impl Model for ProvModel {
    type Sys = ProvSys;
    type Action = ProvOp;

    fn name(&self) -> String {
        "c17-providers".into()
    }

    fn config(&self) -> Value {
        json!({"max_provider_keys": self.max_keys, "max_providers_per_key": self.max_per_key,
               "max_provider_addresses": self.max_addrs, "provider_ttl_zero": self.ttl_zero,
               "keys": self.keys, "peers": self.peers})
    }

    fn init(&self) -> ProvSys {
        let config = MemoryStoreConfig {
            max_provider_keys: self.max_keys,
            max_providers_per_key: self.max_per_key,
            max_provider_addresses: self.max_addrs,
            provider_ttl: if self.ttl_zero { Duration::ZERO } else { HOUR },
            provider_refresh_interval: 10 * HOUR,
            ..Default::default()
        };
        litep2p::verif::clock::reset();
        ProvSys {
            store: MemoryStore::with_config(ppeer(LOCAL), config),
            pre: (BTreeMap::new(), Vec::new()),
            observations: 0,
            clock_steps: 0,
        }
    }

    fn enabled(&self, sys: &ProvSys) -> Vec<ProvOp> {
        let mut v = Vec::new();
        for key in 0..self.keys {
            v.push(ProvOp::GetProviders { key });
        }
        if !self.ttl_zero && sys.clock_steps < 2 && !sys.pre.0.is_empty() {
            v.push(ProvOp::Clock);
        }
        for key in 0..self.keys {
            for peer in 1..=self.peers {
                for n_addr in [0usize, 1, 3] {
                    v.push(ProvOp::PutProvider { key, peer, n_addr });
                }
            }
        }
        for key in 0..self.keys {
            v.push(ProvOp::PutLocal { key });
        }
        for key in 0..self.keys {
            v.push(ProvOp::RemoveLocal { key });
        }
        v
    }

    fn apply(&self, sys: &mut ProvSys, a: &ProvOp) -> Result<Step, Viol> {
        let pre = sys.pre.clone();
        match *a {
            ProvOp::Clock => {
                litep2p::verif::clock::advance(Duration::from_secs(40 * 60));
                sys.clock_steps += 1;
                // nothing but the passage of time: contents unchanged, some entries may now be expired
                let post = self.dump(sys)?;
                let strip = |d: &ProvDump| -> Vec<(u8, Vec<(u8, Vec<Multiaddr>)>)> {
                    d.0.iter().map(|(k, l)| (*k, l.iter().map(|p| (p.peer, p.addrs.clone())).collect())).collect()
                };
                if strip(&post) != strip(&pre) || post.1 != pre.1 {
                    return Err(Viol::new("providers/changed-by-time-alone", "store contents changed although no operation ran"));
                }
                sys.pre = post;
            }
            ProvOp::PutProvider { key, peer, n_addr } => {
                let addresses: Vec<Multiaddr> = (0..n_addr).map(|i| addr(peer, i)).collect();
                let result = sys
                    .store
                    .put_provider(rkey(key), ContentProvider { peer: ppeer(peer), addresses: addresses.clone() });
                let post = self.dump(sys)?;
                let trunc = &addresses[..n_addr.min(self.max_addrs)];
                self.check_put(&pre, &post, key, peer, trunc, result)?;
                if post.1 != pre.1 {
                    return Err(Viol::new("providers/local-set-changed", "put_provider changed the local provider set"));
                }
                sys.pre = post;
            }
            ProvOp::PutLocal { key } => {
                let result = sys.store.put_local_provider(rkey(key), Quorum::One);
                let post = self.dump(sys)?;
                self.check_put(&pre, &post, key, LOCAL, &[], result)?;
                let mut expect = pre.1.clone();
                if result && !expect.contains(&key) {
                    expect.push(key);
                    expect.sort();
                }
                if post.1 != expect {
                    return Err(Viol::new(
                        "providers/local-set-wrong",
                        format!("after put_local_provider({key})={result}: local keys {:?}, expected {:?}", post.1, expect),
                    ));
                }
                sys.pre = post;
            }
            ProvOp::RemoveLocal { key } => {
                sys.store.remove_local_provider(rkey(key));
                let post = self.dump(sys)?;
                self.invariants(&post)?;
                self.others_unchanged(&pre, &post, key)?;
                if post.1.contains(&key) {
                    return Err(Viol::new("providers/local-not-removed", format!("key {key} still a local provider key")));
                }
                let expect_locals: Vec<u8> = pre.1.iter().copied().filter(|k| *k != key).collect();
                if post.1 != expect_locals {
                    return Err(Viol::new("providers/local-set-wrong", "remove_local_provider changed other local keys"));
                }
                let empty = Vec::new();
                let before = pre.0.get(&key).unwrap_or(&empty);
                let after = post.0.get(&key).unwrap_or(&empty);
                if pre.1.contains(&key) {
                    if after.iter().any(|p| p.peer == LOCAL) {
                        return Err(Viol::new(
                            "providers/local-provider-still-served",
                            format!("local provider still listed for key {key} after removal"),
                        ));
                    }
                    for p in before {
                        if p.peer != LOCAL && !p.expired && !after.contains(p) {
                            return Err(Viol::new(
                                "providers/remove-local-removed-other",
                                format!("removing the local provider removed {p:?}"),
                            ));
                        }
                    }
                } else if after != before && !(before.iter().all(|p| p.expired || after.contains(p))) {
                    return Err(Viol::new(
                        "providers/remove-nonexistent-local-changed-store",
                        format!("remove_local_provider({key}) for a key we do not provide changed {before:?} to {after:?}"),
                    ));
                }
                sys.pre = post;
            }
            ProvOp::GetProviders { key } => {
                let got = sys.store.get_providers(&rkey(key));
                let post = self.dump(sys)?;
                self.invariants(&post)?;
                self.others_unchanged(&pre, &post, key)?;
                let empty = Vec::new();
                let before = pre.0.get(&key).unwrap_or(&empty);
                let expect: Vec<(u8, Vec<Multiaddr>)> =
                    before.iter().filter(|p| !p.expired).map(|p| (p.peer, p.addrs.clone())).collect();
                let mut got2 = Vec::new();
                for g in &got {
                    got2.push((self.peer_index(&g.peer)?, g.addresses.clone()));
                }
                if got2 != expect {
                    let sig = if got2.iter().any(|(p, _)| before.iter().any(|b| b.peer == *p && b.expired)) {
                        "providers/get-returned-expired"
                    } else {
                        "providers/get-disagrees-with-contents"
                    };
                    return Err(Viol::new(
                        sig,
                        format!("get_providers({key}) returned {got2:?}, live contents were {expect:?} (all: {before:?})"),
                    ));
                }
                if post.1 != pre.1 {
                    return Err(Viol::new("providers/local-set-changed", "get_providers changed the local provider set"));
                }
                sys.pre = post;
            }
        }
        sys.observations += 0;
        Ok(Step::Ok)
    }

    fn on_panic(&self, a: &ProvOp, msg: &str) -> Result<Step, Viol> {
        // `remove_local_provider` has debug assertions for "local provider displaced/expired before removal".
        // Reaching them is outside the C17 statement (which is about bounds and freshness): prune, count.
        if matches!(a, ProvOp::RemoveLocal { .. }) && msg.contains("store.rs") {
            DEBUG_ASSERT_OBSERVED.fetch_add(1, std::sync::atomic::Ordering::Relaxed);
            return Ok(Step::Prune);
        }
        Err(Viol::new(format!("panic/{}", e1::panic_site(msg)), format!("panic: {msg}")))
    }

    fn canon(&self, sys: &ProvSys) -> Vec<u8> {
        // expiry classes depend on when each entry was written relative to the clock steps: the dump's `expired`
        // flags plus the number of steps taken determine the future
        format!("{:?}|{}", sys.pre, sys.clock_steps).into_bytes()
    }
}

static DEBUG_ASSERT_OBSERVED: std::sync::atomic::AtomicU64 = std::sync::atomic::AtomicU64::new(0);

fn rec_models(ctx: &Ctx) -> Vec<RecModel> {
    let mut v = Vec::new();
    for max_records in [0usize, 1, 2] {
        for max_size in [0usize, 1, 4] {
            v.push(RecModel { max_records, max_size, keys: ctx.tier.pick(2, 3) });
        }
    }
    v
}

fn prov_models(ctx: &Ctx) -> Vec<ProvModel> {
    let mut v = Vec::new();
    for max_keys in [0usize, 1, 2] {
        for max_per_key in [1usize, 2, 3, 4] {
            for max_addrs in [0usize, 1, 2] {
                // per-key bounds 3 and 4 (removal from the middle of a list, eviction with several candidates) only
                // with the address dimension fixed: it is independent of the list order
                if max_per_key > 2 && (max_addrs != 1 || max_keys == 0) {
                    continue;
                }
                for ttl_zero in [false, true] {
                    v.push(ProvModel {
                        max_keys,
                        max_per_key,
                        max_addrs,
                        ttl_zero,
                        keys: ctx.tier.pick(2, 3),
                        peers: 3,
                    });
                }
            }
        }
    }
    v
}

pub fn run(ctx: &mut Ctx) {
    let ex = Explorer {
        max_depth: ctx.tier.pick(4, 6),
        max_states: 2_000_000,
        recheck_every: 1,
        ..Default::default()
    };
    for m in rec_models(ctx) {
        let label = format!("records[max_records={},max_size={}]", m.max_records, m.max_size);
        let out = ex.run(&m);
        e1::absorb(ctx, &label, out);
    }
    for m in prov_models(ctx) {
        let label = format!(
            "providers[keys<={},per_key<={},addrs<={},ttl0={}]",
            m.max_keys, m.max_per_key, m.max_addrs, m.ttl_zero
        );
        let out = ex.run(&m);
        e1::absorb(ctx, &label, out);
    }
    ctx.cov(
        "debug_assert_in_remove_local_provider_observed",
        DEBUG_ASSERT_OBSERVED.load(std::sync::atomic::Ordering::Relaxed),
    );
    ctx.cov("depth_bound", ex.max_depth as u64);
    ctx.cov(
        "rule",
        "E1 breadth-first over all operation histories up to depth_bound on the real MemoryStore, per configuration; \
         states deduplicated on the canonical dump; every transition checked against the relation allowed(pre,op,post,result)",
    );
    ctx.assume("record expiry is controlled through data (expires in {None, now, now+1h, now+2h}); provider expiry through provider_ttl in {0, 1h}; executions take microseconds so the hour margins make wall-clock time irrelevant");
    ctx.assume("max_providers_per_key >= 1 (the property's quantifier excludes 0)");
    ctx.assume("debug_assert! panics inside remove_local_provider (local provider displaced or expired before removal) are outside the statement: pruned and counted, not reported");
}

pub fn replay(case: &Value) -> Result<String, String> {
    let cfg = &case["config"];
    let probe = case["probe"].as_bool().unwrap_or(false);
    match case["model"].as_str() {
        Some("c17-records") => {
            let m = RecModel {
                max_records: cfg["max_records"].as_u64().unwrap() as usize,
                max_size: cfg["max_record_size_bytes"].as_u64().unwrap() as usize,
                keys: cfg["keys"].as_u64().unwrap() as u8,
            };
            let actions: Vec<RecOp> = serde_json::from_value(case["actions"].clone()).map_err(|e| e.to_string())?;
            e1::replay_actions(&m, &actions, probe)
        }
        Some("c17-providers") => {
            let m = ProvModel {
                max_keys: cfg["max_provider_keys"].as_u64().unwrap() as usize,
                max_per_key: cfg["max_providers_per_key"].as_u64().unwrap() as usize,
                max_addrs: cfg["max_provider_addresses"].as_u64().unwrap() as usize,
                ttl_zero: cfg["provider_ttl_zero"].as_bool().unwrap(),
                keys: cfg["keys"].as_u64().unwrap() as u8,
                peers: cfg["peers"].as_u64().unwrap() as u8,
            };
            let actions: Vec<ProvOp> = serde_json::from_value(case["actions"].clone()).map_err(|e| e.to_string())?;
            e1::replay_actions(&m, &actions, probe)
        }
        other => Err(format!("unknown model {other:?}")),
    }
}

