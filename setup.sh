#!/bin/bash
# Build the harness offline from files on disk (cargo registry cache + /repo path dependency).
set -e
cd /verif/harness
mkdir -p target
export CARGO_NET_OFFLINE=true
cargo build --offline 2>&1 | tail -n 3
