#!/bin/bash
# ./run.sh <property id> <quick|thorough>
# Rebuilds the harness against /repo's current working tree (hooks on: --cfg litep2p_verif) and runs one check.
# exit 0 = held on everything explored; 1 = VIOLATION printed; 2 = machinery error (never a verdict).
set -u
ID="${1:?property id}"
TIER="${2:-${VERIF_TIER:-quick}}"
cd /verif/harness || exit 2
export CARGO_NET_OFFLINE=true
BUILD_LOG="$(mktemp /verif/harness/target/build.XXXXXX.log 2>/dev/null || mktemp)"
if ! cargo build --offline >"$BUILD_LOG" 2>&1; then
  echo "MACHINERY-ERROR property=$ID harness build failed (log follows)" >&2
  tail -n 60 "$BUILD_LOG" >&2
  rm -f "$BUILD_LOG"
  exit 2
fi
rm -f "$BUILD_LOG"
exec /verif/harness/target/debug/verif check "$ID" --tier "$TIER"
